// Key material that collides under plausible normalisations, and the monitor
// rule "what was in memory before a restart is in memory after it, key by key".
//
// At HEAD nothing between the access log and the state file normalises a key:
// the record decoder (goccy/go-json into common.AccessLog) keeps method, URL,
// consumer tag and interceptor header byte for byte (surrounding spaces and
// letter case included), sharedDiscovery.Endpoint{Method, URL} is a Go map key
// (byte equality), the persisted key is Method + ":::" + URL and is split back
// at the first ":::".  So "get" / "GET" / " GET" are three endpoints in memory
// and three entries of the state file.  An edit that canonicalises any part of
// the PERSISTED key (upper-cased method, lower-cased host, trimmed tag, ...)
// makes two in-memory entries share one entry of the file: one overwrites the
// other and its traffic is gone after the next restart — invisible without a
// restart and with streams whose keys are already canonical.
//
// The generator therefore always puts BOTH spellings into one stream (with
// different counts, statuses, durations and stamps, so that the loss of either
// changes the totals), and the batchings restart at every cut and once more
// after the last record.
package main

import (
	"fmt"
	"sort"
	"strings"
	"unicode/utf8"

	c "verifharness/common"
)

const (
	sigKeyCollision = "lost-traffic:restart:key-collision"
	sigNonUTF8Key   = "lost-traffic:restart:non-utf8-key"
)

// ---------------------------------------------------------------- generator

var collisionKinds = []string{
	"method-case", "method-space", "host-case", "path-case", "trailing-slash",
	"delimiter-in-url", "tag-case", "tag-space", "interceptor-case", "percent-case",
	"non-utf8-url", "non-utf8-tag", "non-utf8-interceptor", "non-utf8-method", "non-utf8-url", "non-utf8-tag",
}

// Byte strings that are not valid UTF-8 and read the same once written to the
// (JSON) state file, next to well-formed neighbours that must stay distinct:
// Latin-1 letters, truncated sequences, overlong forms, surrogates, values
// beyond U+10FFFF, bytes F5..FF, runs of several ill-formed bytes, and an
// ill-formed byte next to a literal U+FFFD.
var nonUTF8Groups = [][]string{
	{"caf\xe9", "caf\xe8", "caf\u00e9"},
	{"a\xe2\x82", "a\xe2", "a\u20ac"},
	{"\xc0\xaf", "\xc1\xbf", "\xc2\xaf"},
	{"\xed\xa0\x80", "\xf4\x90\x80\x80", "\xf5"},
	{"x\xff", "x\uFFFD", "x\xfe\xfd"},
	{"\xe9a\xe8", "\xe8a\xe9", "\xe9\xe8a"},
	{"\xff\xfe", "\xff", "\U0001F600"},
	{"\xf0\x9f\x98", "\xf0\x9f", "\xe2\x82\xe2\x82\xac"},
}

// some: all the spellings, or all but one (never fewer than two)
func some(r *c.Rng, xs []Rec) []Rec {
	if len(xs) <= 2 || r.Bool() {
		return xs
	}
	i := r.Intn(len(xs))
	return append(append([]Rec{}, xs[:i]...), xs[i+1:]...)
}

// variants: two or three spellings of one key that differ only in the named way
func variants(r *c.Rng, kind string, base Rec) []Rec {
	with := func(f func(*Rec)) Rec { x := base; f(&x); return x }
	host, path, _ := strings.Cut(base.URL, "/")
	switch kind {
	case "method-case":
		m := base.Method
		out := []Rec{with(func(x *Rec) { x.Method = strings.ToLower(m) }), with(func(x *Rec) { x.Method = m })}
		if r.Bool() {
			out = append(out, with(func(x *Rec) { x.Method = m[:1] + strings.ToLower(m[1:]) }))
		}
		return out
	case "method-space":
		return some(r, []Rec{with(func(x *Rec) { x.Method = " " + base.Method }), base,
			with(func(x *Rec) { x.Method = base.Method + " " })})
	case "host-case":
		return some(r, []Rec{with(func(x *Rec) { x.URL = strings.ToUpper(host[:1]) + host[1:] + "/" + path }), base,
			with(func(x *Rec) { x.URL = strings.ToUpper(host) + "/" + path })})
	case "path-case":
		return []Rec{with(func(x *Rec) { x.URL = host + "/" + strings.ToUpper(path) }), base}
	case "trailing-slash":
		if r.Bool() {
			// the tree itself drops a trailing '/' of a URL it can hold (both spellings
			// are one endpoint in memory); a URL it refuses (empty path part) is kept
			// verbatim, so here the two spellings are two endpoints
			return []Rec{with(func(x *Rec) { x.URL = host + "//" + path + "/" }), with(func(x *Rec) { x.URL = host + "//" + path })}
		}
		return []Rec{with(func(x *Rec) { x.URL = base.URL + "/" }), base}
	case "delimiter-in-url":
		switch r.Intn(4) {
		case 0: // the text after the delimiter differs only in case
			return []Rec{with(func(x *Rec) { x.URL = base.URL + ":::b" }), with(func(x *Rec) { x.URL = base.URL + ":::B" }), base}
		case 1: // the URL starts / ends with the delimiter
			return []Rec{with(func(x *Rec) { x.URL = ":::" + base.URL }), with(func(x *Rec) { x.URL = base.URL + ":::" }), base}
		case 2: // method + URL read the same once joined: GET + :x  /  GET + x
			return []Rec{with(func(x *Rec) { x.URL = ":" + base.URL }), with(func(x *Rec) { x.URL = "::" + base.URL }), base}
		}
		return []Rec{with(func(x *Rec) { x.URL = base.URL + ":::" + base.Method + ":::" + base.URL }), base}
	case "tag-case":
		return some(r, []Rec{with(func(x *Rec) { x.Cons = "Tenant-A" }), with(func(x *Rec) { x.Cons = "tenant-a" }),
			with(func(x *Rec) { x.Cons = "TENANT-A" })})
	case "tag-space":
		return some(r, []Rec{with(func(x *Rec) { x.Cons = "t1 " }), with(func(x *Rec) { x.Cons = "t1" }),
			with(func(x *Rec) { x.Cons = " t1" })})
	case "interceptor-case":
		return some(r, []Rec{with(func(x *Rec) { x.Icpt = "PY/1.0" }), with(func(x *Rec) { x.Icpt = "py/1.0" }),
			with(func(x *Rec) { x.Icpt = "py /1.0" })})
	case "non-utf8-url", "non-utf8-tag", "non-utf8-interceptor", "non-utf8-method":
		g := c.Pick(r, nonUTF8Groups)
		var out []Rec
		for _, frag := range g {
			frag := frag
			switch kind {
			case "non-utf8-url":
				out = append(out, with(func(x *Rec) { x.URL = base.URL + "/" + frag }))
			case "non-utf8-tag":
				out = append(out, with(func(x *Rec) { x.Cons = frag }))
			case "non-utf8-method":
				out = append(out, with(func(x *Rec) { x.Method = base.Method + frag }))
			default:
				if r.Bool() {
					out = append(out, with(func(x *Rec) { x.Icpt = frag + "/1.0" }))
				} else {
					out = append(out, with(func(x *Rec) { x.Icpt = "py/" + frag }))
				}
			}
		}
		return some(r, out)
	case "percent-case":
		return []Rec{with(func(x *Rec) { x.URL = base.URL + "%2f" }), with(func(x *Rec) { x.URL = base.URL + "%2F" })}
	}
	return []Rec{base}
}

// genCollisionCase: 1-3 groups of colliding spellings over one or two base
// URLs; the first spelling of a group occurs twice, the others once (the
// aggregates that would overwrite each other have different counts).
func genCollisionCase(r *c.Rng, maxLen int) (Case, []string) {
	// mostly the production split threshold (50): no convergence, every key is exact
	k := Case{Threshold: c.Pick(r, []int{50, 50, 50, 3, 2})}
	bases := []string{c.Pick(r, []string{"h.com", "api.h.com"}) + "/" + c.Pick(r, []string{"orders", "a", "a/b"})}
	if r.Bool() {
		bases = append(bases, "x.io/"+c.Pick(r, []string{"v", "v/w"}))
	}
	var kinds []string
	var recs []Rec
	groups := r.Range(1, 3)
	for g := 0; g < groups; g++ {
		kind := c.Pick(r, collisionKinds)
		kinds = append(kinds, kind)
		base := Rec{Method: c.Pick(r, []string{"GET", "GET", "POST"}), URL: c.Pick(r, bases),
			Cons: c.Pick(r, []string{"", "t1", "t1"}), Icpt: c.Pick(r, []string{"py/1.0", "py/1.0", ""})}
		vs := variants(r, kind, base)
		vs = append(vs, vs[0])
		if r.Chance(1, 3) {
			vs = append(vs, vs[r.Intn(len(vs))])
		}
		recs = append(recs, vs...)
	}
	for len(recs) > maxLen {
		recs = recs[:len(recs)-1]
	}
	for i := len(recs) - 1; i > 0; i-- { // any order of arrival
		j := r.Intn(i + 1)
		recs[i], recs[j] = recs[j], recs[i]
	}
	aligned := r.Chance(1, 6)
	odd := r.Chance(1, 3) // status values that are not HTTP status codes
	for i := range recs {
		x := &recs[i]
		x.Status = c.Pick(r, statuses)
		if odd && r.Chance(1, 3) {
			x.Status = c.Pick(r, oddStatuses)
		}
		x.Dur = c.Pick(r, []int{1, 7, 120, 300, 4000}) + i
		x.TDur = x.Dur + r.Range(0, 50)
		x.TS = t0 + int64(700*i+r.Intn(600))
		if aligned {
			x.TS = t0 + 1000*int64(i)
		}
		x.Internal = r.Chance(1, 20)
	}
	k.Records = recs
	return k, kinds
}

// collisionBatchings: unsplit; every cut with a restart at the cut AND a last
// restart after the final record; every cut without any restart; every cut with
// the restart at the cut only; a restart after everything.
func collisionBatchings(n int) []RunObs {
	runs := []RunObs{{Cuts: []int{}, Restart: []bool{}}}
	for cut := 1; cut < n; cut++ {
		runs = append(runs,
			RunObs{Cuts: []int{cut, n}, Restart: []bool{true, true}},
			RunObs{Cuts: []int{cut}, Restart: []bool{false}},
			RunObs{Cuts: []int{cut}, Restart: []bool{true}})
	}
	return append(runs, RunObs{Cuts: []int{n}, Restart: []bool{true}},
		RunObs{Cuts: []int{n, n}, Restart: []bool{true, true}})
}

// collisionCorpus: the minimal demonstrations, run before the random streams.
func collisionCorpus() []Case {
	rec := func(m, u string, st int, ts int64, tag, icpt string) Rec {
		return Rec{Method: m, URL: u, Status: st, Dur: 10 + int(ts%7), TDur: 30, TS: t0 + ts, Cons: tag, Icpt: icpt}
	}
	return []Case{
		// one URL requested as get and as GET (2 + 3 records), two consumers
		{Threshold: 50, Records: []Rec{
			rec("get", "api.com/orders", 200, 100, "consumerA", "py/1.0"), rec("GET", "api.com/orders", 200, 1200, "consumerA", "py/1.0"),
			rec("get", "api.com/orders", 500, 2300, "consumerA", "py/1.0"), rec("GET", "api.com/orders", 404, 3400, "consumerB", "py/1.0"),
			rec("GET", "api.com/orders", 201, 4500, "consumerA", "py/1.0")}},
		// every part of the key at once: method, host, path, tag, interceptor
		{Threshold: 50, Records: []Rec{
			rec("GET", "h.com/a", 200, 0, "t1", "py/1.0"), rec(" GET", "H.com/a", 200, 1100, "T1", "PY/1.0"),
			rec("Get", "h.com/A", 404, 2200, "t1 ", "py/1.0 "), rec("GET", "h.com/a/", 500, 3300, "", "py/1.0"),
			rec("GET", "h.com/a", 200, 4400, "N/A", "py/1.0"), rec("GET ", "h.com/a", 201, 5500, "t1", "Py/1.0"),
			rec("GET", "h.com//a/", 200, 6600, "t1", "py/1.0"), rec("GET", "h.com//a", 200, 7700, "t1", "py/1.0")}},
		// the delimiter: inside, at the start, at the end of the URL; ':' next to it
		{Threshold: 50, Records: []Rec{
			rec("GET", "h.com/a:::b", 200, 0, "", ""), rec("GET", "h.com/a:::B", 500, 1001, "", ""),
			rec("GET", ":::h.com/a", 200, 2002, "t", ""), rec("GET", "h.com/a:::", 404, 3003, "t", ""),
			rec("GET", ":h.com/a", 200, 4004, "", ""), rec("GET", "h.com/a", 200, 5005, "", ""),
			rec("GET", "h.com/a:::GET:::h.com/a", 201, 6006, "", "")}},
		// keys that are not valid UTF-8 (F-C15e): the inputs of C15_to_valid_utf8_examples as
		// URL parts, consumer tags and interceptor ids, colliding pairs first
		{Threshold: 50, Records: []Rec{
			rec("GET", "h.com/\xff", 200, 0, "caf\xe9", "py/1.0"), rec("GET", "h.com/\xfe", 200, 1100, "caf\xe8", "py/1.0"),
			rec("GET", "h.com/\xff", 500, 2200, "caf\xe9", "p\xff/1.0"), rec("GET", "h.com/\xfe", 404, 3300, "caf\u00e9", "p\xfe/1.0"),
			rec("GET", "h.com/\xfe", 201, 4400, "", "py/\xc0\xaf")}},
		{Threshold: 50, Records: []Rec{
			rec("GET", "h.com/\xff\xfea", 200, 0, "a\xe2\x82", "py/1.0"), rec("GET", "h.com/\xc0\xafb", 200, 1100, "\xed\xa0\x80", "\xf4\x90\x80\x80/1"),
			rec("GET", "h.com/\xe9a\xe8", 500, 2200, "\xe2\x82\xe2\x82\xac", "py/1.0"),
			rec("GET", "h.com/\u00e9\u20ac\U0001F600\uFFFD", 404, 3300, "a\xe2", "py/1.0"),
			rec("GET\xff", "h.com/\xfe\xffa", 201, 4400, "\uFFFD", "1/\xf5"), rec("GET\xfe", "h.com/\uFFFDa", 200, 5500, "\xff", "py/1.0")}},
	}
}

// foldKey: the key under the union of the normalisations the generator aims at
// (only used to count how often a restart met two such entries in memory)
func foldKey(e EndpointObs) string {
	e.URL, e.Method, e.Consumer = canon(e.URL), canon(e.Method), canon(e.Consumer)
	u := strings.ToLower(strings.TrimSuffix(strings.TrimSpace(e.URL), "/"))
	if i := strings.Index(u, ":::"); i >= 0 {
		u = u[:i]
	}
	return strings.ToLower(strings.TrimSpace(e.Consumer)) + "|" + strings.ToLower(strings.TrimSpace(e.Method)) + "|" + strings.Trim(u, ":")
}

// collidingPairInMemory: did some restart of the run meet two entries in memory
// whose keys are equal under foldKey?
func collidingPairInMemory(r *RunObs) bool {
	for _, b := range r.Batches {
		if b.PreRestart == nil {
			continue
		}
		for _, list := range [][]EndpointObs{b.PreRestart.Endpoints, b.PreRestart.Consumers} {
			seen := map[string]bool{}
			for _, e := range list {
				if seen[foldKey(e)] {
					return true
				}
				seen[foldKey(e)] = true
			}
		}
	}
	return false
}

// ---------------------------------------------------------------- monitor

func entryKey(e EndpointObs) [3]string { return [3]string{e.Consumer, e.Method, e.URL} }

func showKeys(ks [][3]string) string {
	sort.Slice(ks, func(i, j int) bool { return fmt.Sprint(ks[i]) < fmt.Sprint(ks[j]) })
	var out []string
	for i, k := range ks {
		if i == 4 {
			out = append(out, "...")
			break
		}
		if k[0] != "" {
			out = append(out, fmt.Sprintf("%q %q %q", k[0], k[1], k[2]))
		} else {
			out = append(out, fmt.Sprintf("%q %q", k[1], k[2]))
		}
	}
	return "[" + strings.Join(out, ", ") + "]"
}

// restartConservation: "when the state is written to disk and read back, the
// totals are preserved", evaluated per key exactly as the key was held in
// memory (method, URL, consumer tag as recorded): every entry that was there
// before is there after, under the same key, with the same request count,
// status counts and mean durations, and its time fields within the whole
// second of what they were (the resolution of the on-disk format); no entry
// appears.  before/after: memory before the restart / memory after it (suite
// stream); memory / state file after a flush that wrote, state file / memory
// read back from it (suite faults).
func restartConservation(before, after Final, what, ctx string, add func(sig, dem, obs string)) {
	dem := "an endpoint's statistics survive the write/read round trip of the state file under the key they had in memory"
	for li, lists := range [][2][]EndpointObs{{before.Endpoints, after.Endpoints}, {before.Consumers, after.Consumers}} {
		name := []string{"endpoints", "consumers"}[li]
		pre, post := lists[0], lists[1]
		got := map[[3]string]EndpointObs{}
		for _, e := range post {
			got[entryKey(e)] = e
		}
		had := map[[3]string]bool{}
		var missing, changed, appeared [][3]string
		why := ""
		for _, e := range pre {
			had[entryKey(e)] = true
			g, ok := got[entryKey(e)]
			switch {
			case !ok:
				missing = append(missing, entryKey(e))
			case g.Count != e.Count || fmt.Sprint(g.Statuses) != fmt.Sprint(e.Statuses) ||
				!timeOK(g.Min, e.Min, true) || !timeOK(g.Max, e.Max, true) ||
				!closeF(g.AvgDur, e.AvgDur) || !closeF(g.AvgTDur, e.AvgTDur):
				changed = append(changed, entryKey(e))
				if why == "" {
					why = fmt.Sprintf("; %q %q: count %d %v [%d,%d] means %v/%v -> count %d %v [%d,%d] means %v/%v", e.Method, e.URL,
						e.Count, e.Statuses, e.Min, e.Max, e.AvgDur, e.AvgTDur, g.Count, g.Statuses, g.Min, g.Max, g.AvgDur, g.AvgTDur)
				}
			}
		}
		for _, e := range post {
			if !had[entryKey(e)] {
				appeared = append(appeared, entryKey(e))
			}
		}
		if len(missing)+len(changed)+len(appeared) == 0 {
			continue
		}
		obs := fmt.Sprintf("%s, %s: %d entries before, %d after; gone %s, changed %s, new %s%s (%s)", what, name,
			len(pre), len(post), showKeys(missing), showKeys(changed), showKeys(appeared), why, ctx)
		nonUTF8 := false
		for _, k := range append(append([][3]string{}, missing...), changed...) {
			if !utf8.ValidString(k[0]) || !utf8.ValidString(k[1]) || !utf8.ValidString(k[2]) {
				nonUTF8 = true
			}
		}
		switch {
		case nonUTF8:
			// an entry whose key is not valid UTF-8 did not come back as it was: the
			// JSON state file cannot hold such a key
			add(sigNonUTF8Key, dem, obs)
		case len(post) > 0 && len(post) < len(pre):
			// fewer entries came back than were held: distinct in-memory keys share an entry of the file
			add(sigKeyCollision, dem, obs)
		case len(post) < len(pre):
			add("lost-traffic:restart:entries-dropped", dem, obs)
		default:
			add("lost-traffic:restart:entry-changed", dem, obs)
		}
		return
	}
	got := map[[2]string]int64{}
	for _, i := range after.Interceptors {
		got[[2]string{i.Type, i.Version}] = i.TS
	}
	for _, i := range before.Interceptors {
		g, ok := got[[2]string{i.Type, i.Version}]
		if (!ok || !timeOK(g, i.TS, true)) && !(utf8.ValidString(i.Type) && utf8.ValidString(i.Version)) {
			add(sigNonUTF8Key, "an interceptor's last-seen time survives the round trip of the state file (to the second)",
				fmt.Sprintf("%s: interceptor %q/%q %d -> %d (present=%v) (%s)", what, i.Type, i.Version, i.TS, g, ok, ctx))
			return
		}
		if !ok || !timeOK(g, i.TS, true) {
			add("interceptor:restart", "an interceptor's last-seen time survives the round trip of the state file (to the second)",
				fmt.Sprintf("%s: %q/%q %d -> %d (present=%v) (%s)", what, i.Type, i.Version, i.TS, g, ok, ctx))
			return
		}
	}
	if len(after.Interceptors) != len(before.Interceptors) {
		add("interceptor:restart", "the interceptors after a restart are those held before",
			fmt.Sprintf("%s: %d interceptors before, %d after (%s)", what, len(before.Interceptors), len(after.Interceptors), ctx))
	}
}

// restartRule: suite stream — every restart of the run (no write ever fails
// there, so the file is the memory as of the previous flush).
func restartRule(r *RunObs, add func(sig, dem, obs string)) {
	for i, b := range r.Batches {
		if b.PreRestart == nil || b.PostRestart == nil {
			continue
		}
		restartConservation(*b.PreRestart, *b.PostRestart, "memory before vs after the restart",
			fmt.Sprintf("restart before flush %d of %s", i+1, describeRun(r)), add)
	}
}
