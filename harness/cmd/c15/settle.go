// Which tree groups the records of a flush (theories/C15/Settle.v, suite
// "settle"), streams whose very first batch crosses the split threshold on an
// empty aggregation, and status values that are not HTTP status codes.
//
// Observation, per flush (nothing here is needed to RUN a flush: an
// implementation that drops or reorders tree calls is observed and reported):
//
//	PreInserts  the convergence-reporting inserts (common.NormalizeTree) the tree
//	            received before any other call of this flush;
//	Unsettled   the grouping look-ups (the last 2 x accepted look-ups of the
//	            flush: by endpoint, by consumer+endpoint) whose answer differs
//	            from what the same tree answers for the same URL once
//	            discovery.Run has returned.
//
//	Calls       every tree call of the flush in order (kind, URL, look-up answer);
//	EndKeys     for every URL of those calls, what the wrapped tree answers once
//	            discovery.Run has returned (the "recorded oracle").
//
// Calls and EndKeys go to Coq for the flushes in which the tree reported no
// convergence (SettleCalls.v, run_settle_calls): flush_tree / flush_calls are
// evaluated on the same batch over the oracle and must give exactly these calls.
//
// HEAD inserts every URL of the batch first, so the grouping pass runs on a tree
// that holds the whole batch and (for a tree that keeps what it holds) no longer
// moves (C15_grouping_settled).  A flush that grouped BEFORE the tree had been
// given the whole batch and has an unsettled look-up filed one of its OWN records
// under a key the tree does not give that URL at the end of the very same flush.
// No earlier aggregate is involved, so a batch dependence that comes with it is
// not the re-keying of finding F-C15 (monitor.go, invariance).
package main

import (
	"fmt"
	"strings"

	c "verifharness/common"
)

const sigUnsettled = "batch-dependence:flush-grouped-before-tree-settled"

func observeSettle(bo *BatchObs, rt *recTree, size, n, nE, nC int) {
	bo.Size, bo.Accepted, bo.StateEmpty = size, n, nE == 0 && nC == 0
	ev := rt.events
	i := 0
	for i < len(ev) && ev[i].kind == "conv-insert" {
		i++
	}
	bo.PreInserts = i
	var looks []treeEvent
	for _, e := range ev {
		if e.kind == "lookup" {
			looks = append(looks, e)
		}
	}
	if len(looks) > 2*n {
		looks = looks[len(looks)-2*n:]
	}
	// the calls one by one, and what the tree answers for each of their URLs now
	// that Run has returned (SettleCalls.v: the recorded oracle)
	bo.Calls = append([]treeEvent(nil), ev...)
	have := map[string]bool{}
	for _, e := range ev {
		if have[e.url] {
			continue
		}
		have[e.url] = true
		r := rt.inner.Lookup(e.url) // the wrapped tree itself: not recorded
		now := e.url
		if r.Match {
			now = r.NormalizedURL
		}
		bo.EndKeys = append(bo.EndKeys, Pair{e.url, now})
	}
	seen := map[string]bool{}
	for _, e := range looks {
		r := rt.inner.Lookup(e.url) // the wrapped tree itself: not recorded
		now := e.url
		if r.Match {
			now = r.NormalizedURL
		}
		if now != e.res {
			d := fmt.Sprintf("%s grouped under %s, the tree now gives %s", encBytes(e.url), encBytes(e.res), encBytes(now))
			if !seen[d] {
				seen[d] = true
				bo.Unsettled = append(bo.Unsettled, d)
			}
		}
	}
}

// unsettledFlush: the first flush of the run that grouped its records while the
// tree had not yet been given the whole batch, and filed some of them under keys
// the tree no longer gives when the flush ends.  (HEAD gives the tree the whole
// batch first; the real tree then still moves in about 2 flushes of 10 000, all
// of them flushes whose re-keying pass inserted already-normalised keys: the
// tree's own lazy convergence, which stays with finding F-C15.)
func unsettledFlush(r *RunObs) (int, *BatchObs) {
	for i := range r.Batches {
		if len(r.Batches[i].Unsettled) > 0 && r.Batches[i].PreInserts < r.Batches[i].Accepted {
			return i, &r.Batches[i]
		}
	}
	return -1, nil
}

// Suite "settle" as declared to the framework: since Extension 3 the cases are
// evaluated by SettleCalls.v (run_settle_calls), which keeps the demands of
// run_settle and adds the tree calls one by one.
const (
	settleImports = "From Coq Require Import Uint63.\nFrom Verif Require Import C15.Model C15.Settle C15.SettleCalls."
	settleRunFn   = "run_settle_calls"
)

// what reaches GetUpdatedAggregations of a batch, as (URL, consumer tag): the
// non-internal records with their key fields made valid UTF-8, "" reads "N/A".
// Used only to work out the HINT (the order in which the per-consumer grouping
// met the tags); the model recomputes all of it from the records as logged.
func acceptedOf(batch []Rec) (urls, tags []string) {
	for _, r := range batch {
		if r.Internal {
			continue
		}
		tg := strings.ToValidUTF8(r.Cons, "\uFFFD")
		if tg == "" {
			tg = "N/A"
		}
		urls = append(urls, strings.ToValidUTF8(r.URL, "\uFFFD"))
		tags = append(tags, tg)
	}
	return
}

// tagOrder: an arrangement of the consumer tags of the batch such that the
// URLs of the records, tag by tag in that order, are the sequence seen (the
// URLs of the last len(urls) look-ups of the flush).  Go map order decides it
// in the code.  No such arrangement: order of first appearance (the model will
// then disagree with the recorded calls).
func tagOrder(urls, tags []string, seen []string) []string {
	var order []string
	by := map[string][]string{}
	for i, tg := range tags {
		if _, ok := by[tg]; !ok {
			order = append(order, tg)
		}
		by[tg] = append(by[tg], urls[i])
	}
	if len(seen) != len(urls) {
		return order
	}
	used := map[string]bool{}
	var out []string
	var rec func(pos int) bool
	rec = func(pos int) bool {
		if len(out) == len(order) {
			return pos == len(seen)
		}
		for _, tg := range order {
			if used[tg] {
				continue
			}
			us := by[tg]
			if pos+len(us) > len(seen) {
				continue
			}
			ok := true
			for j, u := range us {
				if seen[pos+j] != u {
					ok = false
					break
				}
			}
			if !ok {
				continue
			}
			used[tg] = true
			out = append(out, tg)
			if rec(pos + len(us)) {
				return true
			}
			used[tg] = false
			out = out[:len(out)-1]
		}
		return false
	}
	if rec(0) {
		return append([]string(nil), out...)
	}
	return order
}

// wire format of SettleCalls.v (psettle): strs; recs (url tag internal); runs n,
// per run flushes n, per flush: size state_empty rekeyed pre unsettled,
// calls (one number each: kind + 4*url + 2^22*key), oracle (url + 2^20*key), hint
func coqSettleCalls(o *c.Out, k *Case) string {
	var strs section
	str := func(x string) int64 {
		it := []int64{int64(len(x))}
		for i := 0; i < len(x); i++ {
			it = append(it, int64(x[i]))
		}
		return strs.put(it)
	}
	recs := []int64{int64(len(k.Records))}
	for _, r := range k.Records {
		recs = append(recs, str(r.URL), str(r.Cons), b2i(r.Internal))
	}
	runs := []int64{int64(len(k.Runs))}
	for _, r := range k.Runs {
		runs = append(runs, int64(len(r.Batches)))
		prev := 0
		for _, b := range r.Batches {
			runs = append(runs, int64(b.Size), b2i(b.StateEmpty), b2i(b.Converged), int64(b.PreInserts), int64(len(b.Unsettled)))
			end := prev + b.Size
			if end > len(k.Records) {
				end = len(k.Records)
			}
			batch := k.Records[prev:end]
			prev = end
			if b.Converged { // a re-keying pass: finding F-C15, the calls are not given to the model
				runs = append(runs, 0, 0, 0)
				continue
			}
			o.Count("flush:tree-calls-evaluated")
			runs = append(runs, int64(len(b.Calls)))
			var lookURLs []string
			for _, e := range b.Calls {
				switch e.kind {
				case "conv-insert":
					runs = append(runs, 0+4*str(e.url))
				case "insert":
					runs = append(runs, 1+4*str(e.url))
				default:
					runs = append(runs, 2+4*str(e.url)+(str(e.res)<<22))
					lookURLs = append(lookURLs, e.url)
				}
			}
			runs = append(runs, int64(len(b.EndKeys)))
			for _, p := range b.EndKeys {
				runs = append(runs, str(p.From)+(str(p.To)<<20))
			}
			urls, tags := acceptedOf(batch)
			if len(lookURLs) >= len(urls) {
				lookURLs = lookURLs[len(lookURLs)-len(urls):]
			}
			hint := tagOrder(urls, tags, lookURLs)
			runs = append(runs, int64(len(hint)))
			for _, tg := range hint {
				runs = append(runs, str(tg))
			}
			if len(hint) > 1 {
				o.Count("flush:tree-calls-evaluated:several-consumer-tags")
			}
		}
	}
	if len(strs.items) >= 1<<20 {
		panic("too many strings in a settle case")
	}
	var out []int64
	out = strs.flat(out)
	out = append(out, recs...)
	out = append(out, runs...)
	it := make([]string, len(out))
	for i, v := range out {
		if v < 0 {
			panic("negative number in a settle case")
		}
		it[i] = fmt.Sprintf("%d", v)
	}
	return "(" + c.List(it) + ")%uint63"
}

// emitSettle writes the suite "settle" case of a stream that has been executed
// (crashed runs have no flush observations and are left out).
func emitSettle(o *c.Out, k *Case) {
	kk := *k
	kk.Runs = nil
	first, grouped := false, false
	for _, r := range k.Runs {
		if r.Crash != "" {
			continue
		}
		kk.Runs = append(kk.Runs, r)
		restartedSoFar := false
		for _, b := range r.Batches {
			restartedSoFar = restartedSoFar || b.Restarted
			if len(b.Unsettled) > 0 {
				o.Count(fmt.Sprintf("flush:unsettled:after-a-restart=%v,rekeyed=%v,tree-given-whole-batch-first=%v", restartedSoFar, b.Converged, b.PreInserts >= b.Accepted))
			}
			if b.StateEmpty && b.Accepted > 0 {
				first = true
				for _, p := range b.ExtractE {
					if p.From != p.To {
						grouped = true // the first flush on an empty aggregation already groups under a parameter
					}
				}
			}
			o.Count(fmt.Sprintf("flush:unsettled=%v", len(b.Unsettled) > 0))
			if b.Converged {
				o.Count(fmt.Sprintf("flush:convergence-reported:stored-keys-to-re-key=%v,unsettled=%v", !b.StateEmpty, len(b.Unsettled) > 0))
			}
			if b.Size > 0 && b.PreInserts != b.Accepted {
				o.Count("flush:tree-not-pre-normalised")
			}
		}
	}
	if grouped {
		o.Count("stream:first-flush-on-empty-state-converges-alone")
	}
	o.Case("settle", coqSettleCalls(o, &kk), slim(&kk), first && grouped)
}

// ---------------------------------------------------------------- generators

// status values that are not HTTP status codes: HAProxy's placeholder -1 (no
// response status seen), 0, just outside 100..599, a provider's 999
var oddStatuses = []int{-1, -1, 0, 99, 600, 999}

// sprinkleOddStatuses gives some records (internal ones too) such a status
func sprinkleOddStatuses(r *c.Rng, recs []Rec, num, den int) {
	for i := range recs {
		if r.Chance(num, den) {
			recs[i].Status = c.Pick(r, oddStatuses)
		}
	}
}

func siblings(host, prefix string, from, n int, status func(i int) int) []Rec {
	var out []Rec
	for i := from; i < from+n; i++ {
		out = append(out, Rec{Method: "GET", URL: fmt.Sprintf("%s/%s/%d", host, prefix, i), Status: status(i),
			Dur: 10 * i, TDur: 10*i + 2, TS: t0 + int64(1000*i), Cons: "checkout", Icpt: "lunar-aiohttp-interceptor/2.0.2"})
	}
	return out
}

// cutsOf turns batch sizes into cut positions
func cutsOf(sizes ...int) RunObs {
	r := RunObs{Cuts: []int{}, Restart: []bool{}}
	pos := 0
	for _, s := range sizes[:len(sizes)-1] {
		pos += s
		r.Cuts = append(r.Cuts, pos)
		r.Restart = append(r.Restart, false)
	}
	return r
}

// settleCorpus: first, the demonstrations of the two seeded regressions this
// file was written for.
func settleCorpus(o *c.Out) []Case {
	ok := func(int) int { return 200 }
	var out []Case
	// five sibling URLs, split threshold 2: the third distinct sibling makes the
	// tree infer a path parameter; unsplit (the first flush on the empty state
	// converges alone) against every other cut of the same stream
	k := Case{Threshold: 2, Records: siblings("svc.example.com", "users", 1, 5, ok)}
	k.Runs = append(batchings(o, 5), cutsOf(1, 1, 1, 1, 1), cutsOf(2, 1, 2), cutsOf(3, 1, 1), cutsOf(1, 3, 1))
	out = append(out, k)
	// the same with other traffic before and after, two consumers, internal records
	k = Case{Threshold: 2}
	k.Records = append(k.Records, Rec{Method: "POST", URL: "svc.example.com/login", Status: 201, Dur: 5, TDur: 6, TS: t0 + 10, Icpt: "py/1.0"})
	k.Records = append(k.Records, siblings("svc.example.com", "users", 1, 4, ok)...)
	k.Records[2].Cons = "billing"
	k.Records = append(k.Records, Rec{Method: "GET", URL: "svc.example.com/users/9", Status: 503, TS: t0 + 20, Internal: true})
	k.Records = append(k.Records, siblings("svc.example.com", "orders", 1, 3, func(i int) int { return []int{200, -1, 404}[i%3] })...)
	k.Runs = batchings(o, len(k.Records))
	out = append(out, k)
	// threshold 1 and 3, the crossing record first / last in its batch
	for _, th := range []int{1, 3} {
		k = Case{Threshold: th, Records: siblings("h.com", "a", 1, th+2, ok)}
		k.Runs = batchings(o, len(k.Records))
		out = append(out, k)
	}
	// the production threshold (50): 53 siblings, cut around the crossing only
	k = Case{Threshold: 50, Records: siblings("api.h.com", "v1", 1, 53, ok)}
	k.Runs = []RunObs{{Cuts: []int{}, Restart: []bool{}}, cutsOf(10, 43), cutsOf(50, 3), cutsOf(51, 2), cutsOf(52, 1), cutsOf(1, 52), cutsOf(25, 25, 3)}
	out = append(out, k)
	// status values that are not HTTP status codes on one endpoint (production
	// threshold: no convergence), also in internal records, two consumers
	sts := []int{200, -1, 200, 404, 0, -1, 999, 200, 600, 99}
	k = Case{Threshold: 50}
	for i, s := range sts {
		k.Records = append(k.Records, Rec{Method: "GET", URL: "svc.example.com/orders", Status: s, Dur: 5 + i, TDur: 7 + i,
			TS: t0 + int64(1000*i), Cons: []string{"checkout", "checkout", ""}[i%3], Icpt: "lunar-aiohttp-interceptor/2.0.2"})
	}
	k.Records = append(k.Records, Rec{Method: "GET", URL: "svc.example.com/orders", Status: -1, TS: t0 + 50, Internal: true})
	k.Runs = append(batchings(o, len(k.Records)), cutsOf(1, 4, 6), RunObs{Cuts: []int{3, 8}, Restart: []bool{true, true}})
	out = append(out, k)
	return out
}

// genFirstBatchCase: a stream that starts with more distinct siblings than the
// split threshold (so that whatever comes first on the empty aggregation crosses
// it within one flush when the cut is late enough), then ordinary traffic.
func genFirstBatchCase(r *c.Rng) Case {
	k := Case{Threshold: c.Pick(r, []int{1, 2, 2, 3})}
	host := c.Pick(r, hosts)
	depth := r.Range(0, 1)
	prefix := c.Pick(r, segs)
	if depth == 1 {
		prefix += "/" + c.Pick(r, segs)
	}
	n := k.Threshold + r.Range(1, 3)
	odd := r.Chance(1, 2)
	for i := 0; i < n; i++ {
		rec := Rec{Method: c.Pick(r, methods[:r.Range(1, 2)]), URL: fmt.Sprintf("%s/%s/%s", host, prefix, c.Pick(r, []string{"1", "2", "3", "4", "5", "6", "x", "y"})),
			Status: c.Pick(r, statuses), Dur: r.Range(0, 500), TS: t0 + int64(r.Intn(4000)), Cons: c.Pick(r, tags), Icpt: c.Pick(r, icpts)}
		if r.Chance(3, 4) { // mostly distinct siblings; a repeated one now and then
			rec.URL = fmt.Sprintf("%s/%s/%d", host, prefix, 10+i)
		}
		rec.TDur = rec.Dur + r.Range(0, 50)
		rec.Internal = r.Chance(1, 15)
		k.Records = append(k.Records, rec)
	}
	tail := genCase(r, 6)
	k.Records = append(k.Records, tail.Records...)
	if odd {
		sprinkleOddStatuses(r, k.Records, 1, 3)
	}
	return k
}
