// Property monitor for C15, written against the property text and the raw
// records only (it does not look at how the plugin or the model aggregate).
//
//  1. conservation, per run: the final statistics account for every
//     non-internal record exactly once (counts, status counts, per method,
//     per consumer tag, extreme timestamps, mean durations up to rounding);
//  2. attribution: an endpoint never counts more records than its pattern
//     covers, and every record is covered by some endpoint;
//  3. batch invariance: every split run ends with the statistics of the
//     unsplit run;
//  4. restart (collisions.go): every entry held in memory before a restart is
//     there after it under the same key (method, URL, consumer tag as recorded)
//     with the same counts; two entries coming back as one =
//     lost-traffic:restart:key-collision.
//
// Persisted timestamps have a resolution of one second (public on-disk
// format); the property only promises that *totals* survive the disk round
// trip, so after a restart min/max times are accepted anywhere between the
// true extreme and its whole second.
package main

import (
	"fmt"
	"math"
	"sort"
	"strings"
	"unicode/utf8"

	c "verifharness/common"
)

const (
	sigKnownKeys = "batch-dependence:keys-follow-tree-convergence"
)

func floorSec(ms int64) int64 {
	q := ms / 1000
	if ms%1000 != 0 && ms < 0 {
		q--
	}
	return q * 1000
}

func closeF(a, b float64) bool {
	return math.Abs(a-b) <= 1e-4*math.Max(math.Abs(a), math.Abs(b))+1e-3
}

// timeOK: observed extreme vs the true one; exact without restart
func timeOK(obs, truth int64, restarted bool) bool {
	if !restarted {
		return obs == truth
	}
	return floorSec(truth) <= obs && obs <= truth
}

func hasRestart(r *RunObs) bool {
	for _, b := range r.Batches {
		if b.Restarted {
			return true
		}
	}
	return false
}

// covers: the endpoint URL pattern (parts equal or {param}) generalises the record URL
func covers(pattern, url string) bool {
	ps := strings.FieldsFunc(strings.Trim(pattern, "./"), func(r rune) bool { return r == '/' || r == '.' })
	us := strings.FieldsFunc(strings.Trim(url, "./"), func(r rune) bool { return r == '/' || r == '.' })
	if len(ps) != len(us) {
		return false
	}
	for i := range ps {
		if ps[i] == us[i] {
			continue
		}
		if strings.HasPrefix(ps[i], "{") && strings.HasSuffix(ps[i], "}") {
			continue
		}
		return false
	}
	return true
}

// canon: a key as the text it denotes.  The state file is JSON, so a byte that
// is not valid UTF-8 cannot be told from U+FFFD once written; the property
// speaks of endpoints, consumers and interceptors, not of byte strings, so the
// expectation is computed on the text: ill-formed bytes read as U+FFFD, and a run
// of replacement characters as one (whether an implementation replaces per byte
// or per run is not fixed by the property).
func canon(s string) string {
	s = strings.ToValidUTF8(s, "\uFFFD")
	for strings.Contains(s, "\uFFFD\uFFFD") {
		s = strings.ReplaceAll(s, "\uFFFD\uFFFD", "\uFFFD")
	}
	return s
}

func validKeys(r Rec) bool {
	return utf8.ValidString(r.Method) && utf8.ValidString(r.URL) && utf8.ValidString(r.Cons) && utf8.ValidString(r.Icpt)
}

func plainURL(u string) bool {
	return utf8.ValidString(u) && !strings.ContainsAny(u, "{}*:") && !strings.Contains(u, "//") && !strings.HasSuffix(u, "/")
}

type totals struct {
	n        int
	byStatus map[int]int
	byMethod map[string]int
	byTag    map[string]int
	min, max int64
	dur      float64
	tdur     float64
}

func totalsOfRecords(rs []Rec) totals {
	t := totals{byStatus: map[int]int{}, byMethod: map[string]int{}, byTag: map[string]int{}, min: math.MaxInt64, max: math.MinInt64}
	for _, r := range rs {
		if r.Internal {
			continue
		}
		t.n++
		t.byStatus[r.Status]++
		t.byMethod[canon(r.Method)]++
		tag := r.Cons
		if tag == "" {
			tag = "N/A"
		}
		t.byTag[canon(tag)]++
		if r.TS < t.min {
			t.min = r.TS
		}
		if r.TS > t.max {
			t.max = r.TS
		}
		t.dur += float64(r.Dur)
		t.tdur += float64(r.TDur)
	}
	return t
}

func totalsOfAggs(es []EndpointObs) totals {
	t := totals{byStatus: map[int]int{}, byMethod: map[string]int{}, byTag: map[string]int{}, min: math.MaxInt64, max: math.MinInt64}
	for _, e := range es {
		t.n += e.Count
		for _, s := range e.Statuses {
			t.byStatus[s.Status] += s.Count
		}
		t.byMethod[canon(e.Method)] += e.Count
		t.byTag[canon(e.Consumer)] += e.Count
		if e.Min < t.min {
			t.min = e.Min
		}
		if e.Max > t.max {
			t.max = e.Max
		}
		t.dur += e.AvgDur * float64(e.Count)
		t.tdur += e.AvgTDur * float64(e.Count)
	}
	return t
}

func sameIntMap[K comparable](a, b map[K]int) bool {
	if len(a) != len(b) {
		return false
	}
	for k, v := range a {
		if b[k] != v {
			return false
		}
	}
	return true
}

// sameTotals: do two total summaries agree (tags only when withTags)?
func sameTotals(a, b totals, restarted, withTags bool) (bool, string) {
	switch {
	case a.n != b.n:
		return false, fmt.Sprintf("request count %d vs %d", a.n, b.n)
	case !sameIntMap(a.byStatus, b.byStatus):
		return false, fmt.Sprintf("status counts %v vs %v", a.byStatus, b.byStatus)
	case !sameIntMap(a.byMethod, b.byMethod):
		return false, fmt.Sprintf("per-method counts %v vs %v", a.byMethod, b.byMethod)
	case withTags && !sameIntMap(a.byTag, b.byTag):
		return false, fmt.Sprintf("per-consumer counts %v vs %v", a.byTag, b.byTag)
	case a.n > 0 && !timeOK(a.min, b.min, restarted):
		return false, fmt.Sprintf("min time %d vs %d", a.min, b.min)
	case a.n > 0 && !timeOK(a.max, b.max, restarted):
		return false, fmt.Sprintf("max time %d vs %d", a.max, b.max)
	case math.Abs(a.dur-b.dur) > 1e-4*math.Abs(b.dur)+1e-3*float64(b.n+1):
		return false, fmt.Sprintf("sum of durations %.3f vs %.3f", a.dur, b.dur)
	case math.Abs(a.tdur-b.tdur) > 1e-4*math.Abs(b.tdur)+1e-3*float64(b.n+1):
		return false, fmt.Sprintf("sum of total durations %.3f vs %.3f", a.tdur, b.tdur)
	}
	return true, ""
}

func describeRun(r *RunObs) string {
	return fmt.Sprintf("cuts=%v restart=%v", r.Cuts, r.Restart)
}

// ---------------------------------------------------------------- 1+2 conservation, attribution

func conservation(k *Case, r *RunObs, add func(sig, dem, obs string)) {
	truth := totalsOfRecords(k.Records)
	restarted := hasRestart(r)
	rejected := false
	for _, b := range r.Batches {
		if b.Rejected {
			rejected = true
		}
	}
	site := "aggregate"
	if rejected {
		site = "batch-rejected"
	}
	where := describeRun(r)
	if ok, why := sameTotals(totalsOfAggs(r.Final.Endpoints), truth, restarted, false); !ok {
		add("lost-traffic:endpoints:"+site, "endpoint statistics account for every non-internal record",
			why+" (observed vs records; "+where+")")
	}
	if ok, why := sameTotals(totalsOfAggs(r.Final.Consumers), truth, restarted, true); !ok {
		add("lost-traffic:consumers:"+site, "per-consumer statistics account for every non-internal record",
			why+" (observed vs records; "+where+")")
	}
	for _, list := range [][]EndpointObs{r.Final.Endpoints, r.Final.Consumers} {
		for _, e := range list {
			sum := 0
			for _, s := range e.Statuses {
				sum += s.Count
				if s.Count <= 0 {
					add("status-count:nonpositive", "status counts are positive", fmt.Sprintf("%v %s %s", e.Consumer, e.Method, e.URL))
				}
			}
			if sum != e.Count || e.Count <= 0 {
				add("count-vs-status-sum", "request count = sum of status-code counts",
					fmt.Sprintf("%s %s %s: count %d, statuses %v (%s)", e.Consumer, e.Method, e.URL, e.Count, e.Statuses, where))
			}
			if e.Min > e.Max {
				add("min-after-max", "min time <= max time", fmt.Sprintf("%s %s: %d > %d", e.Method, e.URL, e.Min, e.Max))
			}
		}
	}
	// attribution through the URL pattern (streams of plain URLs only)
	plain := true
	for _, rec := range k.Records {
		if !plainURL(rec.URL) || !validKeys(rec) {
			plain = false
		}
	}
	for _, d := range k.Declared {
		if strings.Contains(d, "*") {
			plain = false
		}
	}
	if plain && !rejected {
		for _, e := range r.Final.Endpoints {
			n := 0
			var lo, hi int64 = math.MaxInt64, math.MinInt64
			for _, rec := range k.Records {
				if !rec.Internal && rec.Method == e.Method && covers(e.URL, rec.URL) {
					n++
					if rec.TS < lo {
						lo = rec.TS
					}
					if rec.TS > hi {
						hi = rec.TS
					}
				}
			}
			if e.Count > n {
				add("attribution:count-exceeds-covered", "an endpoint counts only records it covers",
					fmt.Sprintf("%s %s counts %d, covers %d (%s)", e.Method, e.URL, e.Count, n, where))
			} else if n > 0 && (e.Min < floorSec(lo) || e.Max > hi) {
				add("attribution:times-outside-covered", "min/max times are timestamps of covered records",
					fmt.Sprintf("%s %s [%d,%d] outside [%d,%d] (%s)", e.Method, e.URL, e.Min, e.Max, lo, hi, where))
			}
		}
		for _, rec := range k.Records {
			if rec.Internal {
				continue
			}
			found := false
			for _, e := range r.Final.Endpoints {
				if rec.Method == e.Method && covers(e.URL, rec.URL) {
					found = true
					break
				}
			}
			if !found {
				add("attribution:record-without-endpoint", "every record is attributed to an endpoint",
					fmt.Sprintf("%s %s (%s)", rec.Method, rec.URL, where))
				break
			}
		}
	}
	// interceptors: last transaction time of every well-formed type/version
	want := map[[2]string]int64{}
	for _, rec := range k.Records {
		if rec.Internal {
			continue
		}
		p := strings.Split(rec.Icpt, "/")
		if len(p) != 2 {
			continue
		}
		key := [2]string{canon(p[0]), canon(p[1])}
		if t, ok := want[key]; !ok || rec.TS > t {
			want[key] = rec.TS
		}
	}
	if !rejected {
		got := map[[2]string]int64{}
		for _, i := range r.Final.Interceptors {
			key := [2]string{canon(i.Type), canon(i.Version)}
			if t, ok := got[key]; !ok || i.TS > t {
				got[key] = i.TS
			}
		}
		for key, t := range want {
			g, ok := got[key]
			if !ok || !timeOK(g, t, restarted) {
				add("interceptor:last-seen", "an interceptor's timestamp is that of its latest record",
					fmt.Sprintf("%v: %d (present=%v), records say %d (%s)", key, g, ok, t, where))
			}
		}
	}
}

// ---------------------------------------------------------------- 3 batch invariance

func sameAggLists(a, b []EndpointObs, restarted bool) (bool, string) {
	if len(a) != len(b) {
		return false, fmt.Sprintf("%d entries vs %d", len(a), len(b))
	}
	for i := range a {
		x, y := a[i], b[i]
		if x.Consumer != y.Consumer || x.Method != y.Method || x.URL != y.URL {
			return false, fmt.Sprintf("entry %s %s %s vs %s %s %s", x.Consumer, x.Method, x.URL, y.Consumer, y.Method, y.URL)
		}
		if x.Count != y.Count || fmt.Sprint(x.Statuses) != fmt.Sprint(y.Statuses) {
			return false, fmt.Sprintf("%s %s: count %d %v vs %d %v", x.Method, x.URL, x.Count, x.Statuses, y.Count, y.Statuses)
		}
		if !timeOK(y.Min, x.Min, restarted) || !timeOK(y.Max, x.Max, restarted) {
			return false, fmt.Sprintf("%s %s: times [%d,%d] vs [%d,%d]", x.Method, x.URL, x.Min, x.Max, y.Min, y.Max)
		}
		if !closeF(x.AvgDur, y.AvgDur) || !closeF(x.AvgTDur, y.AvgTDur) {
			return false, fmt.Sprintf("%s %s: mean durations %v/%v vs %v/%v", x.Method, x.URL, x.AvgDur, x.AvgTDur, y.AvgDur, y.AvgTDur)
		}
	}
	return true, ""
}

func lookupTable(t []Pair, u string) string {
	for _, p := range t {
		if p.From == u {
			return p.To
		}
	}
	return u
}

// finalLabels: the endpoint URL (per record) under which the run's own
// normalisation answers finally file each record: its URL as normalised when its
// batch was grouped, then re-normalised by every later re-keying.
func finalLabels(k *Case, r *RunObs, consumers bool) ([]string, bool) {
	bounds := append(append([]int{}, r.Cuts...), len(k.Records))
	out := make([]string, len(k.Records))
	bi := 0
	for i, rec := range k.Records {
		for i >= bounds[bi] {
			bi++
		}
		if rec.Internal {
			continue
		}
		b := r.Batches[bi]
		if !b.OracleOK {
			return nil, false
		}
		t := b.ExtractE
		if consumers {
			t = b.ExtractC
		}
		// the tables are keyed by the URL the tree was asked about: key fields enter
		// the pipeline with ill-formed bytes replaced (fix-F-C15e)
		lab := lookupTable(t, strings.ToValidUTF8(rec.URL, "\uFFFD"))
		for j := bi + 1; j < len(r.Batches); j++ {
			bj := r.Batches[j]
			if !bj.OracleOK {
				return nil, false
			}
			if bj.Converged {
				if consumers {
					lab = lookupTable(bj.RekeyC, lab)
				} else {
					lab = lookupTable(bj.RekeyE, lab)
				}
			}
		}
		out[i] = lab
	}
	return out, true
}

func ambiguous(r *RunObs) bool {
	for _, b := range r.Batches {
		if b.OracleAmbiguous {
			return true
		}
	}
	return false
}

func invariance(k *Case, base, r *RunObs, add func(sig, dem, obs string)) bool {
	restarted := hasRestart(r)
	okE, whyE := sameAggLists(base.Final.Endpoints, r.Final.Endpoints, restarted)
	okC, whyC := sameAggLists(base.Final.Consumers, r.Final.Consumers, restarted)
	okI := len(base.Final.Interceptors) == len(r.Final.Interceptors)
	whyI := "interceptor entries differ"
	if okI {
		for i, x := range base.Final.Interceptors {
			y := r.Final.Interceptors[i]
			if x.Type != y.Type || x.Version != y.Version || !timeOK(y.TS, x.TS, restarted) {
				okI = false
			}
		}
	}
	if okE && okC && okI {
		return true
	}
	why := whyE
	if okE {
		why = whyC
		if okC {
			why = whyI
		}
	}
	dem := "final statistics do not depend on the batch boundaries"
	obs := fmt.Sprintf("unsplit vs %s: %s", describeRun(r), why)
	// classification: a change of totals is never the known finding
	tE1, tE2 := totalsOfAggs(base.Final.Endpoints), totalsOfAggs(r.Final.Endpoints)
	tC1, tC2 := totalsOfAggs(base.Final.Consumers), totalsOfAggs(r.Final.Consumers)
	if ok, w := sameTotals(tE2, tE1, restarted, false); !ok {
		add("batch-dependence:totals-changed", dem, obs+"; totals: "+w)
		return false
	}
	if ok, w := sameTotals(tC2, tC1, restarted, true); !ok {
		add("batch-dependence:totals-changed", dem, obs+"; consumer totals: "+w)
		return false
	}
	if !okI {
		add("batch-dependence:interceptors", dem, obs)
		return false
	}
	// a flush that grouped its own records before the tree had been given the whole batch
	// and filed some under keys the tree no longer gives when the flush ends (settle.go):
	// no aggregate of an earlier flush is involved, this is not the re-keying of F-C15
	for _, x := range []*RunObs{base, r} {
		if i, b := unsettledFlush(x); b != nil {
			add(sigUnsettled, dem, fmt.Sprintf("%s; flush %d of the run with %s (aggregation empty before: %v, %d records, %d inserted into "+
				"the tree before grouping) filed its own records under keys the tree no longer gives when the flush ends: %v",
				obs, i+1, describeRun(x), b.StateEmpty, b.Accepted, b.PreInserts, b.Unsettled))
			return false
		}
	}
	if ambiguous(r) || ambiguous(base) {
		// within one flush the tree answered one URL in two ways: the normaliser is
		// not even a function of the URL
		add(sigKnownKeys, dem, obs+"; the tree normalised one URL in two ways within a flush")
		return false
	}
	incoherent := false
	for _, cons := range []bool{false, true} {
		l1, ok1 := finalLabels(k, base, cons)
		l2, ok2 := finalLabels(k, r, cons)
		if !ok1 || !ok2 {
			add("batch-dependence:unclassified", dem, obs+"; the tree calls of a flush did not have the expected shape")
			return false
		}
		for i := range l1 {
			if l1[i] != l2[i] {
				incoherent = true
			}
		}
	}
	if incoherent {
		add(sigKnownKeys, dem, obs+"; the URL tree normalised some record differently in the two runs")
	} else {
		add("batch-dependence:same-normalisation", dem, obs+"; although every record was normalised alike in both runs")
	}
	return false
}

func monitor(o *c.Out, k *Case) []c.Hit {
	var hits []c.Hit
	if len(k.Runs) == 0 {
		return nil
	}
	base := &k.Runs[0]
	for i := range k.Runs {
		r := &k.Runs[i]
		kk := *k
		kk.Runs = []RunObs{*base}
		if i > 0 {
			kk.Runs = append(kk.Runs, *r)
		}
		add := func(sig, dem, obs string) {
			hits = append(hits, c.Hit{Signature: sig, Demanded: dem, Observed: obs, Case: kk})
		}
		o.MonitorChecked(1)
		if r.Crash != "" {
			add("crash:pipeline", "every stream is processed", "panic: "+r.Crash+" ("+describeRun(r)+")")
			continue
		}
		if base.Crash != "" && i > 0 {
			conservation(k, r, add)
			restartRule(r, add)
			continue
		}
		conservation(k, r, add)
		restartRule(r, add)
		if i > 0 {
			o.MonitorChecked(1)
			if invariance(k, base, r, add) {
				o.Count("split-run:same-as-unsplit")
			} else {
				o.Count("split-run:differs-from-unsplit")
			}
		}
	}
	sort.SliceStable(hits, func(i, j int) bool { return hits[i].Signature < hits[j].Signature })
	return hits
}
