package main

import (
	"encoding/json"
	"fmt"
)

// witnessCase: the minimal stream on which the final endpoint keys depend on
// the batch boundary (finding F-C15); the same stream is the witness of
// C15_batch_invariance_full_refuted in theories/C15/Property.v.
func witnessCase() Case {
	n := 0
	rec := func(u string) Rec {
		n++
		return Rec{Method: "GET", URL: u, Status: 200, Dur: 10 * n, TDur: 10*n + 2, TS: t0 + int64(300*n), Icpt: "py/1.0"}
	}
	// split threshold 2: p/a p/b p/c converge below p; q/a keeps the constant a;
	// r/z converges below h.com and merges p and q.  Unsplit, p/a is looked up
	// in the final tree and finds the constant a; split after three records, it
	// was already filed under h.com/p/{_param_1} and is re-keyed to
	// h.com/{_param_1}/{_param_2}.
	return Case{Threshold: 2,
		Records: []Rec{rec("h.com/p/a"), rec("h.com/p/b"), rec("h.com/p/c"), rec("h.com/q/a"), rec("h.com/r/z")},
		Runs:    []RunObs{{Cuts: []int{}, Restart: []bool{}}, {Cuts: []int{3}, Restart: []bool{false}}}}
}

// corpusCases: minimised streams that run right after the witness — the two
// defects repaired by patches/C15 and the boundaries of the persisted format.
func corpusCases() []Case {
	rec := func(m, u string, st int, ts int64, tag string) Rec {
		return Rec{Method: m, URL: u, Status: st, Dur: 20, TDur: 25, TS: t0 + ts, Cons: tag, Icpt: "py/1.0"}
	}
	two := func(n int) []RunObs {
		runs := []RunObs{{Cuts: []int{}, Restart: []bool{}}}
		for c := 1; c < n; c++ {
			runs = append(runs, RunObs{Cuts: []int{c}, Restart: []bool{false}}, RunObs{Cuts: []int{c}, Restart: []bool{true}})
		}
		return append(runs, RunObs{Cuts: []int{n}, Restart: []bool{true}})
	}
	return []Case{
		// an empty path part: the tree refuses the URL (F-C15c: the whole batch used to be dropped)
		{Threshold: 2, Records: []Rec{rec("GET", "h.com/a", 200, 1, ""), rec("GET", "h.com//b", 200, 2, ""), rec("GET", "h.com/c", 404, 3, "")}, Runs: two(3)},
		// the persisted-key delimiter inside URLs (F-C15d: both used to come back as h.com/x, one lost)
		{Threshold: 3, Records: []Rec{rec("GET", "h.com/x:::1", 200, 1, ""), rec("GET", "h.com/x:::2", 500, 1002, "t")}, Runs: two(2)},
		// same URL under two methods and two consumers, statuses mixed, stamps across second boundaries
		{Threshold: 1, Records: []Rec{rec("GET", "h.com/a", 200, 999, "t1"), rec("POST", "h.com/a", 500, 1000, "t2"),
			rec("GET", "h.com/b", 200, 1001, "t1"), rec("GET", "h.com/a", 404, 2999, "")}, Runs: two(4)},
		// only internal records; then one real one
		{Threshold: 2, Records: []Rec{{Method: "GET", URL: "h.com/i", Status: 200, TS: t0, Internal: true},
			rec("GET", "h.com/a", 200, 5, "")}, Runs: two(2)},
	}
}

// findWitness (C15_FIND_WITNESS=1): development aid, checks that the witness is
// reproduced identically by repeated executions.
func findWitness() {
	first := ""
	for i := 0; i < 20000; i++ {
		k := witnessCase()
		execCase(&k)
		b, _ := json.Marshal(k)
		if i == 0 {
			first = string(b)
			fmt.Println(first)
			fmt.Println(coq(&k))
		} else if string(b) != first {
			fmt.Println("NONDETERMINISTIC", string(b))
			return
		}
	}
	fmt.Println("deterministic over 20000 executions")
}
