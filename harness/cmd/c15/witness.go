package main

import (
	"encoding/json"
	"fmt"
)

// witnessCase: the minimal stream on which the final endpoint keys depend on
// the batch boundary (finding F-C15); the same stream is the witness of
// C15_batch_invariance_full_refuted in theories/C15/Property.v.
func witnessCase() Case {
	rec := func(u string) Rec {
		return Rec{Method: "GET", URL: u, Status: 200, Dur: 10, TDur: 12, TS: t0, Icpt: "py/1.0"}
	}
	return Case{Threshold: 2,
		Records: []Rec{rec("h.com/p/a"), rec("h.com/p/b"), rec("h.com/p/c"), rec("h.com/q/a"), rec("h.com/r/z")},
		Runs:    []RunObs{{Cuts: []int{}, Restart: []bool{}}, {Cuts: []int{3}, Restart: []bool{false}}}}
}

// findWitness (C15_FIND_WITNESS=1): development aid, checks that the witness is
// reproduced identically by repeated executions.
func findWitness() {
	first := ""
	for i := 0; i < 20000; i++ {
		k := witnessCase()
		execCase(&k)
		b, _ := json.Marshal(k)
		if i == 0 {
			first = string(b)
			fmt.Println(first)
		} else if string(b) != first {
			fmt.Println("NONDETERMINISTIC", string(b))
			return
		}
	}
	fmt.Println("deterministic over 20000 executions")
}
