// Suite "faults": the runner/state layer of the discovery pipeline when the
// write of the state file FAILS for some flushes (theories/C15/Faults.v).
//
// The real entry point of a plugin flush, discovery.Run(state, records, tree)
// (what FLBPluginFlushCtx calls; it answers FLB_ERROR when Run returns an
// error and Fluent Bit drops the chunk), is driven over generated streams x
// batchings x sets of failing writes x restart points.  A fault is produced by
// making the location of the state file unwritable for exactly that flush:
//
//	kind 1: the directory that holds the file is renamed away, and back afterwards
//	kind 2: the file is parked and a directory sits at its path, undone afterwards
//
// (both make os.WriteFile fail at open(2), deterministically also for root, and
// leave the previous file content intact).  After every flush the harness
// observes the error class Run returned, the in-memory aggregation
// (State.VerifAggregation) and the state file, parsed by the harness' own JSON
// reader (not by the plugin's restore code).
package main

import (
	"encoding/json"
	"errors"
	"fmt"
	"os"
	"path/filepath"
	"sort"
	"strings"
	"time"

	"lunar/aggregation-plugin/common"
	"lunar/aggregation-plugin/discovery"

	c "verifharness/common"
)

// ---------------------------------------------------------------- case

type FlushObs struct {
	BatchObs
	Fault   int    `json:"fault"`       // 0 none, 1 directory renamed away, 2 directory at the file's path
	Err     int    `json:"error_class"` // 0 nil, 1 ErrCouldNotDumpCombinedAgg, 2 anything else
	ErrText string `json:"error,omitempty"`
	Mem     Final  `json:"memory"`     // State.aggregation after the flush
	Disk    Final  `json:"state_file"` // the file after the flush (fault undone), own parser
	DiskErr string `json:"state_file_problem,omitempty"`
	// the engine's admin port during this flush (engine.go, notify.go)
	Engine       int       `json:"engine_admin_port"`          // behaviour: engUp ... engReset
	ReportDue    bool      `json:"report_due"`                 // the batch holds a non-internal record with an HAProxy-internal status
	Contacted    int       `json:"engine_contacted"`           // 0 no, 1 yes, 2 not observable (nothing was listening)
	Contacts     []contact `json:"engine_received,omitempty"`  // what arrived
	ContactLate  bool      `json:"engine_contacted_late,omitempty"`
	ContactNotes string    `json:"engine_contact_notes,omitempty"`
}

type FaultRun struct {
	Cuts    []int      `json:"cuts"`
	Restart []bool     `json:"restart"` // Restart[i]: restart before flush i+1
	Fail    []int      `json:"fail"`    // Fail[i]: fault kind injected during flush i (len = len(Cuts)+1)
	Engine  []int      `json:"engine_admin_port,omitempty"` // Engine[i]: behaviour of the engine's admin port during flush i (absent: up)
	Flushes []FlushObs `json:"flushes,omitempty"`
	Crash   string     `json:"crash,omitempty"`
}

type FaultCase struct {
	Threshold int        `json:"threshold"`
	Declared  []string   `json:"declared_urls"`
	Records   []Rec      `json:"records"`
	Runs      []FaultRun `json:"runs"`
}

func (r *FaultRun) describe() string {
	if r.Engine != nil {
		names := make([]string, len(r.Engine))
		for i, m := range r.Engine {
			names[i] = engineModeNames[m]
		}
		return fmt.Sprintf("cuts=%v restart=%v failing-writes=%v engine-admin-port=%v", r.Cuts, r.Restart, r.Fail, names)
	}
	return fmt.Sprintf("cuts=%v restart=%v failing-writes=%v", r.Cuts, r.Restart, r.Fail)
}

// ---------------------------------------------------------------- the state file, read independently

type diskEndpoint struct {
	MinTime     string      `json:"min_time"`
	MaxTime     string      `json:"max_time"`
	Count       int         `json:"count"`
	StatusCodes map[int]int `json:"status_codes"`
	AvgDur      float32     `json:"average_duration"`
	AvgTDur     float32     `json:"average_total_duration"`
}

type diskFile struct {
	Interceptors []struct {
		Type    string `json:"type"`
		Version string `json:"version"`
		Last    string `json:"last_transaction_date"`
	} `json:"interceptors"`
	Endpoints map[string]diskEndpoint            `json:"endpoints"`
	Consumers map[string]map[string]diskEndpoint `json:"consumers"`
}

const diskLayout = "2006-01-02T15:04:05Z"

func readDisk(path string) (Final, string) {
	f := Final{Endpoints: []EndpointObs{}, Consumers: []EndpointObs{}, Interceptors: []IcptObs{}}
	raw, err := os.ReadFile(path)
	if err != nil {
		return f, "unreadable: " + err.Error()
	}
	var d diskFile
	if err := json.Unmarshal(raw, &d); err != nil {
		return f, "not the discovery JSON: " + err.Error()
	}
	problem := ""
	ms := func(s string) int64 {
		t, err := time.Parse(diskLayout, s)
		if err != nil {
			problem = "time stamp " + s
			return 0
		}
		return t.UnixMilli()
	}
	entry := func(cons, key string, e diskEndpoint) EndpointObs {
		i := strings.Index(key, ":::")
		if i < 0 {
			problem = "key without delimiter: " + key
			i = len(key) - 3
			key += ":::"
		}
		o := EndpointObs{Consumer: cons, Method: key[:i], URL: key[i+3:], Count: e.Count,
			Min: ms(e.MinTime), Max: ms(e.MaxTime), AvgDur: float64(e.AvgDur), AvgTDur: float64(e.AvgTDur)}
		for s, n := range e.StatusCodes {
			o.Statuses = append(o.Statuses, StatusCount{s, n})
		}
		sort.Slice(o.Statuses, func(i, j int) bool { return o.Statuses[i].Status < o.Statuses[j].Status })
		return o
	}
	for k, e := range d.Endpoints {
		f.Endpoints = append(f.Endpoints, entry("", k, e))
	}
	for cons, m := range d.Consumers {
		for k, e := range m {
			f.Consumers = append(f.Consumers, entry(cons, k, e))
		}
	}
	seen := map[[2]string]int{}
	for _, i := range d.Interceptors {
		key := [2]string{i.Type, i.Version}
		if at, ok := seen[key]; ok { // a later entry of the list wins, as a map assignment would
			f.Interceptors[at].TS = ms(i.Last)
			continue
		}
		seen[key] = len(f.Interceptors)
		f.Interceptors = append(f.Interceptors, IcptObs{i.Type, i.Version, ms(i.Last)})
	}
	sort.Slice(f.Endpoints, func(i, j int) bool { return lessE(f.Endpoints[i], f.Endpoints[j]) })
	sort.Slice(f.Consumers, func(i, j int) bool { return lessE(f.Consumers[i], f.Consumers[j]) })
	sort.Slice(f.Interceptors, func(i, j int) bool {
		if f.Interceptors[i].Type != f.Interceptors[j].Type {
			return f.Interceptors[i].Type < f.Interceptors[j].Type
		}
		return f.Interceptors[i].Version < f.Interceptors[j].Version
	})
	return f, problem
}

// ---------------------------------------------------------------- execution

func must(err error) {
	if err != nil {
		panic("fault injection: " + err.Error())
	}
}

// inject makes the state file location unwritable; the returned function undoes it.
func inject(kind int, dir, path string) func() {
	switch kind {
	case 1:
		must(os.Rename(dir, dir+".parked"))
		return func() { must(os.Rename(dir+".parked", dir)) }
	case 2:
		must(os.Rename(path, path+".parked"))
		must(os.Mkdir(path, 0o755))
		return func() {
			must(os.Remove(path))
			must(os.Rename(path+".parked", path))
		}
	}
	return func() {}
}

func errClass(err error) int {
	switch {
	case err == nil:
		return 0
	case errors.Is(err, common.ErrCouldNotDumpCombinedAgg):
		return 1
	}
	return 2
}

func executeFaults(k *FaultCase, r *FaultRun) (obs []FlushObs, crash string) {
	defer func() {
		if x := recover(); x != nil {
			crash = fmt.Sprint(x)
		}
	}()
	stateSeq++
	dir := fmt.Sprintf("c15f_%d", stateSeq%4)
	os.RemoveAll(dir)
	os.RemoveAll(dir + ".parked")
	must(os.Mkdir(dir, 0o755))
	defer os.RemoveAll(dir)
	defer eng.set(engUp)
	path := filepath.Join(dir, "discovery.json")
	p := &Plan{Threshold: k.Threshold, Declared: k.Declared, Records: k.Records, Cuts: r.Cuts, Restart: r.Restart}
	rt := &recTree{inner: buildTree(p)}
	st := openState(path)
	for i, batch := range p.batches() {
		fo := FlushObs{}
		if i > 0 && r.Restart[i-1] {
			fo.Restarted = true
			st = openState(path)
			post := canonical(st.VerifAggregation())
			fo.PostRestart = &post
			rt.inner = buildTree(p)
		}
		before := st.VerifAggregation()
		nE := len(before.Endpoints)
		nC := 0
		for _, m := range before.Consumers {
			nC += len(m)
		}
		logs := make([]common.AccessLog, len(batch))
		n := 0
		var due []string
		for j, rec := range batch {
			logs[j] = common.AccessLog{
				Timestamp: rec.TS, Duration: rec.Dur, TotalDuration: rec.TDur, StatusCode: rec.Status,
				Method: rec.Method, URL: rec.URL, Interceptor: rec.Icpt, ConsumerTag: rec.Cons,
				Internal: rec.Internal, RequestID: fmt.Sprintf("r%d-%d", i, j),
			}
			if !rec.Internal {
				n++
			}
			if reportable(rec) {
				due = append(due, logs[j].RequestID)
			}
		}
		if i < len(r.Fail) {
			fo.Fault = r.Fail[i]
		}
		if i < len(r.Engine) {
			fo.Engine = r.Engine[i]
		}
		fo.ReportDue = len(due) > 0
		rt.events = rt.events[:0]
		eng.begin(fo.Engine)
		undo := inject(fo.Fault, dir, path)
		var err error
		func() {
			defer undo()
			err = discovery.Run(st, logs, rt)
		}()
		observeEngine(&fo, due)
		fo.Err = errClass(err)
		if err != nil {
			fo.ErrText = err.Error()
		}
		// a dump error comes after the whole aggregation ran: the oracle is complete
		fo.Rejected = fo.Err == 2
		deriveOracle(&fo.BatchObs, rt.events, len(batch) == 0, n, nE, nC)
		observeSettle(&fo.BatchObs, rt, len(batch), n, nE, nC)
		fo.Mem = canonical(st.VerifAggregation())
		fo.Disk, fo.DiskErr = readDisk(path)
		obs = append(obs, fo)
	}
	return obs, ""
}

func execFaultCase(k *FaultCase) {
	for i := range k.Runs {
		r := &k.Runs[i]
		r.Flushes, r.Crash = executeFaults(k, r)
	}
}

// ---------------------------------------------------------------- Coq rendering (wire format of Faults.v, pfcase)

func coqFaults(k *FaultCase) string {
	e := &encoder{}
	recs := []int64{int64(len(k.Records))}
	for _, r := range k.Records {
		recs = append(recs, e.s(r.Method), e.s(r.URL), encStatus(r.Status), int64(r.Dur), int64(r.TDur), r.TS,
			e.s(r.Cons), e.s(r.Icpt), b2i(r.Internal))
	}
	runs := []int64{int64(len(k.Runs))}
	for _, r := range k.Runs {
		prev := 0
		bounds := append(append([]int{}, r.Cuts...), len(k.Records))
		runs = append(runs, int64(len(r.Flushes)))
		for i, f := range r.Flushes {
			runs = append(runs, int64(bounds[i]-prev), b2i(f.Restarted), b2i(f.Converged),
				e.table(f.RekeyE), e.table(f.RekeyC), e.table(f.ExtractE), e.table(f.ExtractC),
				b2i(f.Fault != 0), int64(f.Err), e.final(f.Mem), e.final(f.Disk))
			prev = bounds[i]
		}
	}
	var out []int64
	out = e.strs.flat(out)
	out = e.tbls.flat(out)
	out = e.aggs.flat(out)
	out = e.fins.flat(out)
	out = append(out, recs...)
	out = append(out, runs...)
	it := make([]string, len(out))
	for i, v := range out {
		if v < 0 {
			panic("negative number in a case")
		}
		it[i] = fmt.Sprintf("%d", v)
	}
	return "(" + c.List(it) + ")%uint63"
}

func slimFaults(k *FaultCase) FaultCase {
	out := *k
	out.Runs = make([]FaultRun, len(k.Runs))
	for i, r := range k.Runs {
		out.Runs[i] = FaultRun{Cuts: r.Cuts, Restart: r.Restart, Fail: r.Fail, Engine: r.Engine}
	}
	return out
}

// ---------------------------------------------------------------- monitor (independent of the model)
//
// Conservation across failing writes, from the raw records and the injected
// faults only.  Two ledgers of records are kept while walking the flushes:
//
//	live    — what the memory must account for: every non-internal record
//	          processed since the last restart (whether or not the write of its
//	          flush failed) on top of what that restart read back;
//	durable — what the file must account for: live as of the last flush that
//	          could write (non-empty batch, no fault injected).
//
// A restart sets live := durable: the flushes after the last successful write
// are lost, inherently ("written to disk and read back") — and nothing else.
// After EVERY flush the memory must account for live and the file for durable:
// totals, per status / method / consumer tag, extreme times, mean durations,
// count = sum of status counts, and per endpoint key the number of records
// attributed to it (URL pattern cover, as in monitor.go; equality where every
// record is covered by exactly one key).

type tracked struct {
	Rec
	floored      bool // came back through the file: stamps have whole-second resolution
	failedDump   bool // the write of its flush was made to fail
	failedNotify bool // the report its flush had to make to the engine met a transport failure
	runErr       int  // error class Run returned for its flush (only used to name a loss both faults would explain)
}

func plainStream(k *FaultCase) bool {
	for _, rec := range k.Records {
		if !plainURL(rec.URL) || !validKeys(rec) {
			return false
		}
	}
	for _, d := range k.Declared {
		if strings.Contains(d, "*") {
			return false
		}
	}
	return true
}

func recsOf(ts []tracked, keep func(tracked) bool) []Rec {
	var out []Rec
	for _, t := range ts {
		if keep(t) {
			out = append(out, t.Rec)
		}
	}
	return out
}

func accounts(k *FaultCase, f Final, want []tracked, where, ctx string, disk bool, add func(sig, dem, obs string)) {
	all := recsOf(want, func(tracked) bool { return true })
	lax := disk
	anyFailed, anyUnnotified := false, false
	for _, t := range want {
		lax = lax || t.floored
		anyFailed = anyFailed || t.failedDump
		anyUnnotified = anyUnnotified || t.failedNotify
	}
	truth := totalsOfRecords(all)
	sig := func(obs totals, tags bool) string {
		fitsN, fitsD := false, false
		if anyUnnotified {
			// exactly the flushes whose report to the engine failed are missing (whatever their writes did)
			without := totalsOfRecords(recsOf(want, func(t tracked) bool { return !t.failedNotify }))
			fitsN, _ = sameTotals(obs, without, true, tags)
		}
		if anyFailed {
			without := totalsOfRecords(recsOf(want, func(t tracked) bool { return !t.failedDump }))
			fitsD, _ = sameTotals(obs, without, true, tags)
		}
		if fitsN && fitsD {
			// the same flushes had both faults: a dump error says Run got as far as the write
			for _, t := range want {
				if t.failedNotify && t.failedDump && t.runErr != 1 {
					fitsD = false
				}
			}
			fitsN = !fitsD
		}
		if fitsN {
			return sigNotifyDrop
		}
		if fitsD {
			return "lost-traffic:failed-write-drops-batch"
		}
		if anyFailed && anyUnnotified {
			without := totalsOfRecords(recsOf(want, func(t tracked) bool { return !t.failedDump && !t.failedNotify }))
			if ok, _ := sameTotals(obs, without, true, tags); ok {
				return sigNotifyDrop
			}
		}
		return "lost-traffic:faults:" + where
	}
	dem := "the " + where + " accounts for every record processed since the last restart and for what that restart read back, " +
		"whether or not the write of a flush failed and whatever became of the report to the engine's admin port"
	tE := totalsOfAggs(f.Endpoints)
	if ok, why := sameTotals(tE, truth, lax, false); !ok {
		add(sig(tE, false), dem, fmt.Sprintf("endpoints: %s (observed vs records; %s)", why, ctx))
		return
	}
	tC := totalsOfAggs(f.Consumers)
	if ok, why := sameTotals(tC, truth, lax, true); !ok {
		add(sig(tC, true), dem, fmt.Sprintf("consumers: %s (observed vs records; %s)", why, ctx))
		return
	}
	for _, list := range [][]EndpointObs{f.Endpoints, f.Consumers} {
		for _, e := range list {
			sum := 0
			for _, s := range e.Statuses {
				sum += s.Count
			}
			if sum != e.Count || e.Count <= 0 {
				add("count-vs-status-sum", "request count = sum of status-code counts",
					fmt.Sprintf("%s: %s %s %s: count %d, statuses %v (%s)", where, e.Consumer, e.Method, e.URL, e.Count, e.Statuses, ctx))
			}
		}
	}
	if plainStream(k) {
		unique := true
		for _, rec := range all {
			n := 0
			for _, e := range f.Endpoints {
				if rec.Method == e.Method && covers(e.URL, rec.URL) {
					n++
				}
			}
			if n == 0 {
				add("attribution:record-without-endpoint", "every record is attributed to an endpoint",
					fmt.Sprintf("%s: %s %s (%s)", where, rec.Method, rec.URL, ctx))
				return
			}
			if n > 1 {
				unique = false
			}
		}
		for _, e := range f.Endpoints {
			n := 0
			for _, rec := range all {
				if rec.Method == e.Method && covers(e.URL, rec.URL) {
					n++
				}
			}
			if e.Count > n || (unique && e.Count != n) {
				s := "attribution:count-differs-from-covered"
				if e.Count < n && anyFailed {
					s = "lost-traffic:failed-write-drops-batch"
				}
				if e.Count < n && anyUnnotified && !anyFailed {
					s = sigNotifyDrop
				}
				add(s, "for every endpoint the request count equals the number of records attributed to it",
					fmt.Sprintf("%s: %s %s counts %d, covers %d (%s)", where, e.Method, e.URL, e.Count, n, ctx))
				return
			}
		}
	}
	wantI := map[[2]string]int64{}
	for _, rec := range all {
		p := strings.Split(rec.Icpt, "/")
		if len(p) != 2 {
			continue
		}
		key := [2]string{canon(p[0]), canon(p[1])}
		if t, ok := wantI[key]; !ok || rec.TS > t {
			wantI[key] = rec.TS
		}
	}
	got := map[[2]string]int64{}
	for _, i := range f.Interceptors {
		key := [2]string{canon(i.Type), canon(i.Version)}
		if t, ok := got[key]; !ok || i.TS > t {
			got[key] = i.TS
		}
	}
	for key, t := range wantI {
		g, ok := got[key]
		if !ok || !timeOK(g, t, lax) {
			add("interceptor:last-seen", "an interceptor's timestamp is that of its latest record",
				fmt.Sprintf("%s: %v: %d (present=%v), records say %d (%s)", where, key, g, ok, t, ctx))
		}
	}
}

func faultMonitor(k *FaultCase, r *FaultRun, add func(sig, dem, obs string)) {
	if r.Crash != "" {
		add("crash:pipeline", "every stream is processed", "panic: "+r.Crash+" ("+r.describe()+")")
		return
	}
	var live, durable []tracked
	lastDisk := Final{} // the state file as the harness' own reader saw it after the previous flush
	bounds := append(append([]int{}, r.Cuts...), len(k.Records))
	prev := 0
	for i, fo := range r.Flushes {
		batch := k.Records[prev:bounds[i]]
		prev = bounds[i]
		ctx := fmt.Sprintf("after flush %d of %s", i+1, r.describe())
		if fo.DiskErr != "" {
			add("state-file:unreadable", "the state file holds the discovery statistics", fo.DiskErr+" ("+ctx+")")
			return
		}
		// the report this flush owed the engine could not be delivered (connection refused / lost)
		unnotified := fo.ReportDue && engineTransportFailure(fo.Engine)
		if (fo.Err == 2 && !unnotified) || (fo.Err != 0 && fo.Err != 2 && fo.Fault == 0) {
			add("lost-traffic:batch-rejected", "every flush is processed", "Run returned: "+fo.ErrText+" ("+ctx+")")
			return
		}
		// (an error returned next to a failed report is judged by what became of the
		// records: the ledgers below do not depend on the outcome of the report)
		if fo.Restarted && fo.PostRestart != nil {
			// reading back: what the file held is in memory, key by key (collisions.go)
			restartConservation(lastDisk, *fo.PostRestart, "state file vs the memory read back from it", ctx, add)
		}
		if fo.Restarted {
			live = nil
			for _, t := range durable {
				t.floored = true
				live = append(live, t)
			}
		}
		for _, rec := range batch {
			if !rec.Internal {
				live = append(live, tracked{Rec: rec, failedDump: fo.Fault != 0, failedNotify: unnotified, runErr: fo.Err})
			}
		}
		if len(batch) > 0 && fo.Fault == 0 {
			durable = append([]tracked{}, live...)
		}
		accounts(k, fo.Mem, live, "memory", ctx, false, add)
		accounts(k, fo.Disk, durable, "state-file", ctx, true, add)
		if len(batch) > 0 && fo.Fault == 0 && fo.Err == 0 {
			// writing: every entry of the memory is in the file under its own key
			restartConservation(fo.Mem, fo.Disk, "memory vs the state file just written", ctx, add)
		}
		lastDisk = fo.Disk
	}
}

// ---------------------------------------------------------------- generator

// the demonstration of the write-then-assign regression: three flushes of one
// endpoint (2, 3 and 1 records), the dump of the second fails
func faultCorpus() []FaultCase {
	rec := func(st int, ts int64) Rec {
		return Rec{Method: "GET", URL: "api.com/orders", Status: st, Dur: 10, TDur: 20, TS: t0 + ts, Cons: "consumerA",
			Icpt: "lunar-aiohttp-interceptor/2.0.2"}
	}
	recs := []Rec{rec(200, 0), rec(200, 1000), rec(200, 10000), rec(201, 11000), rec(404, 12000), rec(500, 20000)}
	return []FaultCase{
		{Threshold: 10, Records: recs, Runs: []FaultRun{
			{Cuts: []int{2, 5}, Restart: []bool{false, false}, Fail: []int{0, 1, 0}},
			{Cuts: []int{2, 5}, Restart: []bool{false, false}, Fail: []int{0, 2, 0}},
			{Cuts: []int{2, 5}, Restart: []bool{false, true}, Fail: []int{0, 1, 0}},
			{Cuts: []int{2, 5, 6}, Restart: []bool{false, false, true}, Fail: []int{0, 1, 0, 0}},
			{Cuts: []int{2, 5}, Restart: []bool{false, false}, Fail: []int{1, 1, 1}},
			{Cuts: []int{2, 5, 6}, Restart: []bool{false, false, true}, Fail: []int{2, 1, 2, 0}},
		}},
		// status values that are not HTTP status codes, through failing writes and restarts
		{Threshold: 50, Records: []Rec{rec(200, 0), rec(-1, 1000), rec(200, 2000), rec(404, 3000), rec(0, 4000), rec(-1, 5000),
			rec(999, 6000), rec(200, 7000), rec(600, 8000), rec(99, 9000)}, Runs: []FaultRun{
			{Cuts: []int{3, 8}, Restart: []bool{false, false}, Fail: []int{0, 0, 0}},
			{Cuts: []int{3, 8}, Restart: []bool{true, true}, Fail: []int{0, 0, 0}},
			{Cuts: []int{3, 8}, Restart: []bool{false, true}, Fail: []int{0, 1, 0}},
			{Cuts: []int{1, 5, 10}, Restart: []bool{false, false, true}, Fail: []int{2, 0, 0, 0}},
		}},
	}
}

func genFaultCase(o *c.Out, i int) FaultCase {
	r := o.Rng
	maxLen := 10
	if i%3 == 0 {
		maxLen = 5
	}
	k := genCase(r, maxLen)
	if i%4 == 3 {
		// both spellings of a key that collides under a plausible normalisation (collisions.go)
		k, _ = genCollisionCase(r, maxLen)
		o.Count("fault-stream:colliding-spellings")
	}
	// the production split threshold (main.go, urlTreeMaxSplitThreshold = 50): no
	// convergence with these stream lengths, every endpoint key is exact; a
	// third of the streams keep a small threshold (convergence mid-stream)
	if i%3 != 2 {
		k.Threshold = 50
	}
	fk := FaultCase{Threshold: k.Threshold, Declared: k.Declared, Records: k.Records}
	n := len(k.Records)
	cut3 := func() []int {
		a := r.Range(0, n)
		b := r.Range(a, n)
		return []int{a, b}
	}
	// one cut pair under every set of failing writes and every restart placement
	cuts := cut3()
	if n >= 3 && r.Chance(2, 3) {
		a := r.Range(1, n-2)
		cuts = []int{a, r.Range(a+1, n-1)}
	}
	for f := 0; f < 8; f++ {
		for rs := 0; rs < 4; rs++ {
			if !o.Thorough() && !o.Search() && rs != 0 && (f+rs+i)%2 == 0 {
				continue // quick: half of the restart placements
			}
			kind := func(bit int) int {
				if f&bit == 0 {
					return 0
				}
				return 1 + r.Intn(2)
			}
			fk.Runs = append(fk.Runs, FaultRun{Cuts: cuts, Restart: []bool{rs&1 != 0, rs&2 != 0},
				Fail: []int{kind(1), kind(2), kind(4)}})
		}
	}
	// random longer plans
	extra := o.Scale(4, 12, 12)
	for j := 0; j < extra; j++ {
		nb := r.Range(2, 6)
		var cs []int
		for len(cs) < nb-1 {
			cs = append(cs, r.Range(0, n))
		}
		sort.Ints(cs)
		run := FaultRun{Cuts: cs}
		for b := 0; b < nb; b++ {
			if b > 0 {
				run.Restart = append(run.Restart, r.Chance(1, 4))
			}
			kind := 0
			if r.Chance(2, 5) {
				kind = 1 + r.Intn(2)
			}
			run.Fail = append(run.Fail, kind)
		}
		fk.Runs = append(fk.Runs, run)
	}
	return fk
}

func processFaults(o *c.Out, k *FaultCase) {
	execFaultCase(k)
	kk := *k
	kk.Runs = nil
	nontrivial := false
	for _, r := range k.Runs {
		ok := r.Crash == ""
		failedThenWritten, restartAfterFail, sawFail, sawFailSinceWrite := false, false, false, false
		for _, f := range r.Flushes {
			if f.OracleAmbiguous {
				ok = false
			}
			if f.Restarted && sawFailSinceWrite {
				restartAfterFail = true
			}
			if f.Restarted {
				sawFailSinceWrite = false
			}
			switch {
			case f.Err == 1:
				sawFail, sawFailSinceWrite = true, true
			case f.Err == 0 && f.Fault == 0 && len(f.ExtractE)+len(f.ExtractC) > 0:
				if sawFail {
					failedThenWritten = true
				}
				sawFailSinceWrite = false
			}
		}
		if failedThenWritten && restartAfterFail {
			nontrivial = true
		}
		if failedThenWritten {
			o.Count("fault-run:failed-write-then-successful-write")
		}
		if restartAfterFail {
			o.Count("fault-run:restart-loses-unwritten-flush")
		}
		switch {
		case ok:
			kk.Runs = append(kk.Runs, r)
		case r.Crash != "":
			o.Count("run-not-modelled:crash")
		default:
			o.Count("run-not-modelled:ambiguous-oracle")
		}
	}
	idx := o.Case("faults", coqFaults(&kk), slimFaults(&kk), nontrivial)
	o.CountN("fault-runs", len(k.Runs))
	var hits []c.Hit
	for i := range k.Runs {
		r := &k.Runs[i]
		one := *k
		one.Runs = []FaultRun{*r}
		o.MonitorChecked(1)
		faultMonitor(k, r, func(sig, dem, obs string) {
			hits = append(hits, c.Hit{Suite: "faults", Index: idx, Signature: sig, Demanded: dem, Observed: obs, Case: one})
		})
	}
	sort.SliceStable(hits, func(i, j int) bool { return hits[i].Signature < hits[j].Signature })
	for _, h := range hits {
		o.Hit(h)
	}
}
