// The engine's admin port, played by the harness (theories/C15/Notify.v).
//
// discovery.Run reports the transactions HAProxy answered itself to
// http://127.0.0.1:$ENGINE_ADMIN_PORT/on_haproxy_error before it aggregates a
// batch.  The plugin reads ENGINE_ADMIN_PORT from its environment when the
// package is initialised, so the variable has to be in the environment of the
// process before it starts: on its first start the harness reserves a loopback
// port, puts it into ENGINE_ADMIN_PORT and executes itself again.  The
// reservation is a socket that is bound to the port but never listens; it is
// inherited across the exec and held for the life of the process, so the port
// cannot be handed to anybody else while the harness' own listener (SO_REUSEPORT
// on the same port) is opened and closed flush by flush:
//
//	listener open    -> the "engine" answers (200 / 404 / 500), or closes the
//	                    connection after reading the request, or resets it
//	listener closed  -> connection refused (engine down / not yet started)
//
// Only the public configuration interface of the plugin (the environment
// variable) is used; nothing here depends on how the plugin makes the request.
package main

import (
	"bufio"
	"encoding/json"
	"fmt"
	"io"
	"net"
	"net/http"
	"os"
	"sort"
	"strconv"
	"strings"
	"sync"
	"syscall"
	"time"
)

// behaviours of the admin port during one flush
const (
	engUp       = 0 // answers 200
	engNotFound = 1 // answers 404 (route not registered: engine not in flows mode)
	engRefuse   = 2 // nothing listens: connection refused
	engHangUp   = 3 // reads the request, closes the connection without a reply
	engError    = 4 // answers 500
	engReset    = 5 // accepts and resets the connection at once
)

// SO_REUSEPORT on Linux (asm-generic/socket.h); the frozen syscall package does not export it
const soReusePort = 0xf

var engineModeNames = map[int]string{engUp: "up-200", engNotFound: "answers-404", engRefuse: "refuses",
	engHangUp: "closes-mid-stream", engError: "answers-500", engReset: "resets"}

// the outcome classes of Notify.v: 0 delivered, 1 rejected, 2 unreachable, 3 broken
func engineClass(mode int) int {
	switch mode {
	case engUp:
		return 0
	case engNotFound, engError:
		return 1
	case engRefuse:
		return 2
	}
	return 3
}

// client.Do of the reporter fails under this behaviour
func engineTransportFailure(mode int) bool { return engineClass(mode) >= 2 }

type contact struct {
	Method string   `json:"method,omitempty"`
	Path   string   `json:"path,omitempty"`
	IDs    []string `json:"failed_transactions,omitempty"`
	Note   string   `json:"note,omitempty"`
}

type engineSim struct {
	port int

	mu       sync.Mutex
	mode     int
	ln       net.Listener
	loopDone chan struct{}
	contacts []contact
	active   int // connections being served (guarded by mu)
	timeouts int // consecutive flushes in which an expected report never came
}

var eng *engineSim

const engineFdEnv = "C15_ENGINE_PORT_FD"

// setupEngine must run before anything else in main.
func setupEngine() {
	if os.Getenv(engineFdEnv) == "" {
		reserveAndReexec()
	}
	port, err := strconv.Atoi(os.Getenv("ENGINE_ADMIN_PORT"))
	if err != nil || port <= 0 {
		panic("c15 harness: ENGINE_ADMIN_PORT not set after re-exec")
	}
	eng = &engineSim{port: port}
	eng.set(engUp)
}

func reserveAndReexec() {
	fd, err := syscall.Socket(syscall.AF_INET, syscall.SOCK_STREAM, 0) // not close-on-exec: inherited
	if err != nil {
		panic("c15 harness: socket: " + err.Error())
	}
	if err := syscall.SetsockoptInt(fd, syscall.SOL_SOCKET, soReusePort, 1); err != nil {
		panic("c15 harness: SO_REUSEPORT: " + err.Error())
	}
	if err := syscall.Bind(fd, &syscall.SockaddrInet4{Port: 0, Addr: [4]byte{127, 0, 0, 1}}); err != nil {
		panic("c15 harness: bind: " + err.Error())
	}
	sa, err := syscall.Getsockname(fd)
	if err != nil {
		panic("c15 harness: getsockname: " + err.Error())
	}
	port := sa.(*syscall.SockaddrInet4).Port
	var env []string
	for _, kv := range os.Environ() {
		if !strings.HasPrefix(kv, "ENGINE_ADMIN_PORT=") && !strings.HasPrefix(kv, engineFdEnv+"=") {
			env = append(env, kv)
		}
	}
	env = append(env, fmt.Sprintf("ENGINE_ADMIN_PORT=%d", port), fmt.Sprintf("%s=%d", engineFdEnv, fd))
	exe, err := os.Executable()
	if err != nil {
		panic("c15 harness: executable: " + err.Error())
	}
	if err := syscall.Exec(exe, os.Args, env); err != nil {
		panic("c15 harness: exec: " + err.Error())
	}
}

func (e *engineSim) listen() {
	lc := net.ListenConfig{Control: func(network, address string, c syscall.RawConn) error {
		var serr error
		if err := c.Control(func(fd uintptr) {
			serr = syscall.SetsockoptInt(int(fd), syscall.SOL_SOCKET, soReusePort, 1)
		}); err != nil {
			return err
		}
		return serr
	}}
	ln, err := lc.Listen(nil, "tcp4", fmt.Sprintf("127.0.0.1:%d", e.port))
	if err != nil {
		panic("c15 harness: listen on the reserved admin port: " + err.Error())
	}
	done := make(chan struct{})
	e.ln, e.loopDone = ln, done
	go func() {
		defer close(done)
		for {
			conn, err := ln.Accept()
			if err != nil {
				return
			}
			e.mu.Lock()
			e.active++
			e.mu.Unlock()
			go e.serve(conn)
		}
	}()
}

// set switches the behaviour of the admin port; it returns once the behaviour is in force.
func (e *engineSim) set(mode int) {
	e.quiesce()
	if tr, ok := http.DefaultTransport.(*http.Transport); ok {
		tr.CloseIdleConnections()
	}
	e.mu.Lock()
	e.mode = mode
	ln, done := e.ln, e.loopDone
	e.mu.Unlock()
	if mode == engRefuse {
		if ln != nil {
			ln.Close()
			<-done // the descriptor is closed only when Accept has returned
			e.mu.Lock()
			e.ln, e.loopDone = nil, nil
			e.mu.Unlock()
		}
		return
	}
	if ln == nil {
		e.listen()
	}
}

// quiesce waits until no connection is being served (every handler ends within
// its deadline).
func (e *engineSim) quiesce() {
	for {
		e.mu.Lock()
		n := e.active
		e.mu.Unlock()
		if n == 0 {
			return
		}
		time.Sleep(200 * time.Microsecond)
	}
}

func (e *engineSim) note(c contact) {
	e.mu.Lock()
	e.contacts = append(e.contacts, c)
	e.mu.Unlock()
}

func (e *engineSim) serve(conn net.Conn) {
	defer func() {
		conn.Close()
		e.mu.Lock()
		e.active--
		e.mu.Unlock()
	}()
	conn.SetDeadline(time.Now().Add(5 * time.Second))
	e.mu.Lock()
	mode := e.mode
	e.mu.Unlock()
	if mode == engReset {
		if tc, ok := conn.(*net.TCPConn); ok {
			tc.SetLinger(0)
		}
		e.note(contact{Note: "connection reset before the request was read"})
		return
	}
	req, err := http.ReadRequest(bufio.NewReader(conn))
	if err != nil {
		e.note(contact{Note: "unreadable request: " + err.Error()})
		return
	}
	body, _ := io.ReadAll(req.Body)
	c := contact{Method: req.Method, Path: req.URL.Path}
	var payload struct {
		Failed map[string]json.RawMessage `json:"failed_transactions"`
	}
	if err := json.Unmarshal(body, &payload); err != nil {
		c.Note = "body is not the failed-transactions JSON: " + err.Error()
	}
	for id := range payload.Failed {
		c.IDs = append(c.IDs, id)
	}
	sort.Strings(c.IDs)
	e.note(c)
	status := 0
	switch mode {
	case engUp:
		status = 200
	case engNotFound:
		status = 404
	case engError:
		status = 500
	default:
		return // engHangUp: no reply
	}
	fmt.Fprintf(conn, "HTTP/1.1 %d %s\r\nContent-Length: 0\r\nConnection: close\r\n\r\n", status, http.StatusText(status))
}

// begin puts the admin port into the given behaviour for one flush.
func (e *engineSim) begin(mode int) {
	e.set(mode)
	e.mu.Lock()
	e.contacts = nil
	e.mu.Unlock()
}

// end returns what reached the admin port during the flush.  expected: the
// harness' own reading of the batch says a report is due; if none has arrived
// although somebody was listening, a reporter running beside Run is given a
// moment (it is then counted as late, not as missing).
func (e *engineSim) end(expected bool) (contacts []contact, late bool) {
	got := func() []contact {
		e.quiesce()
		e.mu.Lock()
		defer e.mu.Unlock()
		return append([]contact{}, e.contacts...)
	}
	contacts = got()
	e.mu.Lock()
	mode := e.mode
	e.mu.Unlock()
	if len(contacts) == 0 && expected && mode != engRefuse && e.timeouts < 20 {
		deadline := time.Now().Add(250 * time.Millisecond)
		for len(contacts) == 0 && time.Now().Before(deadline) {
			time.Sleep(2 * time.Millisecond)
			contacts = got()
		}
		if len(contacts) == 0 {
			e.timeouts++
		} else {
			late = true
		}
	}
	if len(contacts) > 0 {
		e.timeouts = 0
	}
	return contacts, late
}
