// C15 harness: the real discovery pipeline of the aggregation output plugin
// (discovery.Run per flush, State.InitializeState + common.BuildTree for a
// restart) on generated access-log streams, under every split into batches.
//
// One case = one stream with all the batchings it was run under (the first run
// is the unsplit one).  The Coq model is given, per batch, the URL
// normalisation the real tree applied (oracle) and must reproduce the final
// aggregate exactly (means: within a tolerance of the exact sum/count).
// The monitor (monitor.go) recomputes the conservation laws from the raw
// records and compares every split run with the unsplit run.
package main

import (
	"encoding/json"
	"fmt"
	"math"
	"os"
	"strings"

	"github.com/rs/zerolog"

	c "verifharness/common"
)

type RunObs struct {
	Cuts    []int      `json:"cuts"`
	Restart []bool     `json:"restart"`
	Batches []BatchObs `json:"batches"`
	Final   Final      `json:"final"`
	Crash   string     `json:"crash,omitempty"` // the implementation panicked during this run
}

type Case struct {
	Threshold int      `json:"threshold"`
	Declared  []string `json:"declared_urls"`
	Records   []Rec    `json:"records"`
	Runs      []RunObs `json:"runs"`
}

func (k *Case) plan(r *RunObs) *Plan {
	return &Plan{Threshold: k.Threshold, Declared: k.Declared, Records: k.Records, Cuts: r.Cuts, Restart: r.Restart}
}

// ---------------------------------------------------------------- Coq rendering

// A case is written as one flat list of primitive integers (wire format of
// theories/C15/Model.v, "pcase"): every distinct string, oracle table,
// aggregate and final observation is stored once and referred to by position
// (the same tables and finals recur under most batchings of a stream).
type section struct {
	index map[string]int
	items [][]int64
}

func (s *section) put(item []int64) int64 {
	key := fmt.Sprint(item)
	if s.index == nil {
		s.index = map[string]int{}
	}
	if i, ok := s.index[key]; ok {
		return int64(i)
	}
	s.index[key] = len(s.items)
	s.items = append(s.items, item)
	return int64(len(s.items) - 1)
}

func (s *section) flat(out []int64) []int64 {
	out = append(out, int64(len(s.items)))
	for _, it := range s.items {
		out = append(out, it...)
	}
	return out
}

type encoder struct{ strs, tbls, aggs, fins section }

func (e *encoder) s(x string) int64 {
	it := []int64{int64(len(x))}
	for i := 0; i < len(x); i++ {
		it = append(it, int64(x[i]))
	}
	return e.strs.put(it)
}

// a status code is any Go int (HAProxy logs -1 when no response status was
// seen); the wire carries non-negative numbers only: v >= 0 as v, v < 0 as
// 2^61 - v (Model.v, zst)
func encStatus(s int) int64 {
	if s >= 0 {
		return int64(s)
	}
	return (int64(1) << 61) - int64(s)
}

func micro(f float64) int64 { return int64(math.Round(f * 1e6)) }

func (e *encoder) table(ps []Pair) int64 {
	it := []int64{int64(len(ps))}
	for _, p := range ps {
		it = append(it, e.s(p.From), e.s(p.To))
	}
	return e.tbls.put(it)
}

func (e *encoder) agg(o EndpointObs) int64 {
	it := []int64{int64(o.Count), int64(len(o.Statuses))}
	for _, s := range o.Statuses {
		it = append(it, encStatus(s.Status), int64(s.Count))
	}
	return e.aggs.put(append(it, o.Min, o.Max, micro(o.AvgDur), micro(o.AvgTDur)))
}

func (e *encoder) final(f Final) int64 {
	it := []int64{int64(len(f.Endpoints))}
	for _, o := range f.Endpoints {
		it = append(it, e.s(o.Method), e.s(o.URL), e.agg(o))
	}
	it = append(it, int64(len(f.Consumers)))
	for _, o := range f.Consumers {
		it = append(it, e.s(o.Consumer), e.s(o.Method), e.s(o.URL), e.agg(o))
	}
	it = append(it, int64(len(f.Interceptors)))
	for _, i := range f.Interceptors {
		it = append(it, e.s(i.Type), e.s(i.Version), i.TS)
	}
	return e.fins.put(it)
}

func b2i(b bool) int64 {
	if b {
		return 1
	}
	return 0
}

func coq(k *Case) string {
	e := &encoder{}
	recs := []int64{int64(len(k.Records))}
	for _, r := range k.Records {
		recs = append(recs, e.s(r.Method), e.s(r.URL), encStatus(r.Status), int64(r.Dur), int64(r.TDur), r.TS,
			e.s(r.Cons), e.s(r.Icpt), b2i(r.Internal))
	}
	runs := []int64{int64(len(k.Runs))}
	for _, r := range k.Runs {
		prev := 0
		bounds := append(append([]int{}, r.Cuts...), len(k.Records))
		runs = append(runs, int64(len(r.Batches)))
		for i, b := range r.Batches {
			runs = append(runs, int64(bounds[i]-prev), b2i(b.Restarted), b2i(b.Converged),
				e.table(b.RekeyE), e.table(b.RekeyC), e.table(b.ExtractE), e.table(b.ExtractC))
			prev = bounds[i]
		}
		runs = append(runs, e.final(r.Final))
	}
	var out []int64
	out = e.strs.flat(out)
	out = e.tbls.flat(out)
	out = e.aggs.flat(out)
	out = e.fins.flat(out)
	out = append(out, recs...)
	out = append(out, runs...)
	it := make([]string, len(out))
	for i, v := range out {
		if v < 0 {
			panic("negative number in a case")
		}
		it[i] = fmt.Sprintf("%d", v)
	}
	return "(" + c.List(it) + ")%uint63"
}

// what is kept of a case in the JSON evidence (observations are recomputed on replay)
func slim(k *Case) Case {
	out := *k
	out.Runs = make([]RunObs, len(k.Runs))
	for i, r := range k.Runs {
		out.Runs[i] = RunObs{Cuts: r.Cuts, Restart: r.Restart}
	}
	return out
}

// ---------------------------------------------------------------- generator

var (
	hosts    = []string{"h.com", "api.h.com", "x.io"}
	segs     = []string{"a", "b", "c", "d", "e", "f"}
	methods  = []string{"GET", "POST", "PUT"}
	statuses = []int{200, 200, 200, 201, 404, 500}
	tags     = []string{"", "", "t1", "t2"}
	icpts    = []string{"py/1.0", "py/1.0", "py/1.1", "java/2", "bad", "", "a/b/c", "go/"}
)

const t0 = int64(1_700_000_000_000)

func genURL(r *c.Rng, nh, ns, depth, exotic int) string {
	u := c.Pick(r, hosts[:nh])
	d := r.Range(1, depth)
	for j := 0; j < d; j++ {
		u += "/" + c.Pick(r, segs[:ns])
	}
	if exotic > 0 && r.Chance(exotic, 100) {
		switch r.Intn(5) {
		case 0:
			u = strings.Replace(u, "/", "//", 1) // empty path part: the tree refuses it
		case 1:
			u += ":::" + c.Pick(r, segs[:ns]) // the persisted-key delimiter inside a URL
		case 2:
			u += "/"
		case 3:
			u += "/{id}" // looks like a declared path parameter
		case 4:
			u += "/v:1"
		}
	}
	return u
}

func genCase(r *c.Rng, maxLen int) Case {
	k := Case{Threshold: c.Pick(r, []int{1, 2, 2, 3})}
	nh := c.Pick(r, []int{1, 1, 2, 3})
	ns := r.Range(2, len(segs))
	depth := r.Range(1, 3)
	exotic := c.Pick(r, []int{0, 0, 0, 6, 20})
	if r.Chance(1, 6) {
		k.Declared = []string{hosts[0] + "/" + segs[0] + "/{id}"}
		if r.Bool() {
			k.Declared = append(k.Declared, hosts[0]+"/"+segs[1])
		}
	}
	n := r.Range(1, maxLen)
	aligned := r.Chance(1, 8) // second-aligned stamps
	sameURLTwice := r.Chance(1, 2)
	for i := 0; i < n; i++ {
		rec := Rec{Method: c.Pick(r, methods[:r.Range(1, 3)]), URL: genURL(r, nh, ns, depth, exotic),
			Status: c.Pick(r, statuses), Dur: c.Pick(r, []int{0, 1, 7, 120, 300, 4000, 100000}),
			TS: t0 + int64(r.Intn(4000)), Cons: c.Pick(r, tags), Icpt: c.Pick(r, icpts)}
		if r.Chance(1, 3) {
			rec.Dur = r.Range(0, 1000)
		}
		rec.TDur = rec.Dur + r.Range(0, 50)
		if aligned {
			rec.TS = t0 + 1000*int64(r.Intn(5))
		}
		if sameURLTwice && i > 0 && r.Chance(1, 4) {
			rec.URL = k.Records[r.Intn(i)].URL
		}
		rec.Internal = r.Chance(1, 12)
		k.Records = append(k.Records, rec)
	}
	// status values that are not HTTP status codes (-1 0 99 600 999), in a third of the streams
	if r.Chance(1, 3) {
		sprinkleOddStatuses(r, k.Records, 1, 3)
	}
	return k
}

// every cut position into two batches, with and without a restart in between;
// thorough: also three batches
func batchings(o *c.Out, n int) []RunObs {
	runs := []RunObs{{Cuts: []int{}, Restart: []bool{}}}
	for cut := 1; cut < n; cut++ {
		runs = append(runs, RunObs{Cuts: []int{cut}, Restart: []bool{false}})
		runs = append(runs, RunObs{Cuts: []int{cut}, Restart: []bool{true}})
	}
	// boundary batchings: an empty batch, a restart before anything was seen
	runs = append(runs, RunObs{Cuts: []int{0}, Restart: []bool{true}})
	runs = append(runs, RunObs{Cuts: []int{n}, Restart: []bool{true}})
	if o.Thorough() || o.Search() {
		pairs := 0
		for a := 1; a < n; a++ {
			for b := a; b < n; b++ {
				if n > 10 && !o.Rng.Chance(40, n*n/2) {
					continue
				}
				pairs++
				rs := []bool{o.Rng.Bool(), o.Rng.Bool()}
				runs = append(runs, RunObs{Cuts: []int{a, b}, Restart: rs})
			}
		}
	}
	return runs
}

func execCase(k *Case) {
	for i := range k.Runs {
		r := &k.Runs[i]
		r.Batches, r.Final, r.Crash = execute(k.plan(r))
	}
}

func process(o *c.Out, k *Case) {
	execCase(k)
	conv, restart, usable, collide := false, false, true, false
	for i := range k.Runs {
		if collidingPairInMemory(&k.Runs[i]) {
			collide = true
			o.Count("run:restart-with-colliding-spellings-in-memory")
		}
	}
	for _, r := range k.Runs {
		if r.Crash != "" {
			usable = false
		}
		for _, b := range r.Batches {
			if b.Converged && (len(b.RekeyE) > 0) {
				conv = true
			}
			if b.Restarted {
				restart = true
			}
			if !b.OracleOK && b.OracleAmbiguous {
				usable = false
			}
		}
	}
	o.Count(fmt.Sprintf("records=%02d", len(k.Records)))
	o.Count(fmt.Sprintf("threshold=%d", k.Threshold))
	o.Count(fmt.Sprintf("rekeyed-nonempty=%v", conv))
	// Runs the model cannot be given: the implementation crashed, or one phase
	// normalised the same URL in two ways (no function url -> url describes
	// that).  They are still monitored.
	kk := *k
	if !usable {
		kk.Runs = nil
		for _, r := range k.Runs {
			ok := r.Crash == ""
			for _, b := range r.Batches {
				if b.OracleAmbiguous {
					ok = false
				}
			}
			if ok {
				kk.Runs = append(kk.Runs, r)
			} else if r.Crash != "" {
				o.Count("run-not-modelled:crash")
			} else {
				o.Count("run-not-modelled:ambiguous-oracle")
			}
		}
	}
	idx := o.Case("stream", coq(&kk), slim(&kk), (conv && restart) || collide)
	emitSettle(o, k)
	for _, rec := range k.Records {
		if !rec.Internal && (rec.Status < 100 || rec.Status > 599) {
			o.Count("stream:with-non-http-status-values")
			break
		}
	}
	o.CountN("runs", len(k.Runs))
	for _, h := range monitor(o, k) {
		h.Suite, h.Index = "stream", idx
		o.Hit(h)
	}
}

func main() {
	// the engine's admin port (ENGINE_ADMIN_PORT) is played by the harness: engine.go
	setupEngine()
	zerolog.SetGlobalLevel(zerolog.Disabled)
	if os.Getenv("C15_FIND_WITNESS") != "" {
		findWitness()
		return
	}
	o := c.NewOut("C15")
	o.ShardSize = 12
	o.DeclareSuite("stream", "From Coq Require Import Uint63.\nFrom Verif Require Import C15.Model.", "fcase", "run_flat")
	o.DeclareSuite("witness", "From Coq Require Import Uint63.\nFrom Verif Require Import C15.Model C15.Witness.", "fcase", "run_witness")
	o.DeclareSuite("faults", "From Coq Require Import Uint63.\nFrom Verif Require Import C15.Model C15.Faults.", "fcase", "run_faults")
	o.DeclareSuite("settle", settleImports, "fcase", settleRunFn) // settle.go
	o.DeclareSuite("notify", "From Coq Require Import Uint63.\nFrom Verif Require Import C15.Model C15.Faults C15.Notify.", "fcase", "run_notify")
	o.Rule("random access-log streams of 1-30 records over small URL alphabets (2-6 path parts, depth 1-3, " +
		"1-3 hosts, split threshold 1-3 so that path-parameter convergence happens mid-stream; some streams with " +
		"empty path parts, ':::' in a URL, '{id}' parts, declared endpoints, second-aligned stamps), each run " +
		"unsplit, under every cut into two batches with and without a restart in between, with an empty batch, " +
		"(thorough: three batches); distinct = distinct (stream, batchings, observations); non-trivial = some " +
		"run re-keyed a non-empty aggregate after a convergence and some run restarted. Suite faults: streams of 1-10 " +
		"records (split threshold 50 as in production for two thirds, 1-3 for the rest) in three flushes under every " +
		"set of failing state-file writes (directory renamed away / a directory at the file's path during that " +
		"flush) and restart placements, plus random plans of 2-6 flushes; observed after every flush: error class " +
		"of discovery.Run, in-memory aggregation, state file (own JSON reader); non-trivial = some run has a failed " +
		"write followed by a successful one and a restart that drops a flush whose write failed. Collision streams (suite " +
		"stream, and every fourth stream of suite faults): 1-3 groups of two or three spellings of ONE key that differ only by " +
		"letter case of the method / host / path / consumer tag / interceptor id, surrounding spaces of method or tag, a " +
		"trailing '/', the case of a percent escape, text around the key delimiter ':::' in the URL, or bytes that are not valid " +
		"UTF-8 in the URL / consumer tag / interceptor id / method (Latin-1 letters, truncated and overlong sequences, surrogates, " +
		"beyond U+10FFFF, F5..FF, runs, next to U+FFFD and to well-formed neighbours), both spellings in the " +
		"same stream with different counts, in any order of arrival, split threshold mostly 50 (no convergence); run unsplit, " +
		"under every cut with and without a restart at the cut, and with a last restart after the final record; non-trivial " +
		"there = some restart met two such spellings in memory. Suite notify (ENGINE_ADMIN_PORT set to a loopback port the harness " +
		"listens on): streams of 1-10 records with statuses in and around the HAProxy-internal set (400 403 408 409 413 417 500 502 " +
		"503 504; also internal records with such a status), cut so that a failed transaction shares its flush with ordinary " +
		"traffic, that flush under every behaviour of the admin port (answers 200 / 404 / 500, refuses the connection, closes it " +
		"after reading the request, resets it), neighbours up or failing, restart placements, some failing state-file writes, plus " +
		"random plans of 2-6 flushes; observed after every flush as in suite faults, plus whether the port was contacted; non-trivial " +
		"= some run has a report that met a transport failure, later traffic and a later restart")
	var raw json.RawMessage
	if suite, ok := o.ReplayCase(&raw); ok {
		if suite == "faults" || suite == "notify" {
			var fk FaultCase
			if err := json.Unmarshal(raw, &fk); err != nil {
				panic(err)
			}
			if suite == "notify" {
				processNotify(o, &fk)
				flushNotifyStats(o)
			} else {
				processFaults(o, &fk)
			}
		} else {
			var k Case
			if err := json.Unmarshal(raw, &k); err != nil {
				panic(err)
			}
			process(o, &k)
		}
		o.Finish()
		return
	}
	// the witness of the batch-dependence finding runs first (Witness.v): the
	// implementation must still produce exactly the recorded observations
	w := witnessCase()
	execCase(&w)
	widx := o.Case("witness", coq(&w), slim(&w), true)
	for _, h := range monitor(o, &w) {
		h.Suite, h.Index = "witness", widx
		o.Hit(h)
	}
	for _, k := range corpusCases() {
		k := k
		process(o, &k)
	}
	// the first flush on the empty aggregation crosses the split threshold alone; status
	// values that are not HTTP status codes (settle.go)
	for _, k := range settleCorpus(o) {
		k := k
		o.Count("settle-stream:corpus")
		process(o, &k)
	}
	nfb := o.Scale(24, 240, 300)
	for i := 0; i < nfb; i++ {
		k := genFirstBatchCase(o.Rng)
		k.Runs = batchings(o, len(k.Records))
		o.Count("settle-stream:generated")
		process(o, &k)
	}
	n := o.Scale(120, 1200, 1000)
	for i := 0; i < n; i++ {
		maxLen := 30
		if i%3 == 0 {
			maxLen = 8
		}
		k := genCase(o.Rng, maxLen)
		k.Runs = batchings(o, len(k.Records))
		process(o, &k)
	}
	// keys that collide under plausible normalisations, both spellings in one
	// stream, a restart at every cut and after the last record (collisions.go)
	for _, k := range collisionCorpus() {
		k := k
		k.Runs = collisionBatchings(len(k.Records))
		o.Count("collision-stream:corpus")
		process(o, &k)
	}
	ncol := o.Scale(40, 400, 600)
	for i := 0; i < ncol; i++ {
		k, kinds := genCollisionCase(o.Rng, 12)
		k.Runs = collisionBatchings(len(k.Records))
		for _, kind := range kinds {
			o.Count("collision-stream:" + kind)
		}
		process(o, &k)
	}
	// failing writes of the state file (faults.go)
	for _, fk := range faultCorpus() {
		fk := fk
		processFaults(o, &fk)
	}
	nf := o.Scale(36, 150, 300)
	for i := 0; i < nf; i++ {
		fk := genFaultCase(o, i)
		processFaults(o, &fk)
	}
	// the engine-notification step under every behaviour of the admin port (notify.go)
	for _, fk := range notifyCorpus() {
		fk := fk
		processNotify(o, &fk)
	}
	nn := o.Scale(24, 120, 300)
	for i := 0; i < nn; i++ {
		fk := genNotifyCase(o, i)
		processNotify(o, &fk)
	}
	flushNotifyStats(o)
	o.Finish()
}
