// Driving the real discovery pipeline (discovery.Run + State + URL tree) on a
// batched stream, recording what the URL tree answered (the normaliser oracle).
package main

import (
	"encoding/hex"
	"encoding/json"
	"fmt"
	"os"
	"sort"
	"strings"
	"unicode/utf8"

	"lunar/aggregation-plugin/common"
	"lunar/aggregation-plugin/discovery"
	sharedDiscovery "lunar/shared-model/discovery"
	"lunar/toolkit-core/urltree"
)

// ---------------------------------------------------------------- inputs

type Rec struct {
	Method   string `json:"method"`
	URL      string `json:"url"`
	Status   int    `json:"status"`
	Dur      int    `json:"duration"`
	TDur     int    `json:"total_duration"`
	TS       int64  `json:"timestamp_ms"`
	Cons     string `json:"consumer_tag"`
	Icpt     string `json:"interceptor"`
	Internal bool   `json:"internal"`
}

// Replay files are JSON: a key field that is not valid UTF-8 (or starts with
// "hex:") travels as "hex:" + its bytes in hexadecimal.
func encBytes(s string) string {
	if utf8.ValidString(s) && !strings.HasPrefix(s, "hex:") {
		return s
	}
	return "hex:" + hex.EncodeToString([]byte(s))
}

func decBytes(s string) string {
	if h, ok := strings.CutPrefix(s, "hex:"); ok {
		if b, err := hex.DecodeString(h); err == nil {
			return string(b)
		}
	}
	return s
}

type recJSON Rec

func (r Rec) MarshalJSON() ([]byte, error) {
	x := recJSON(r)
	x.Method, x.URL, x.Cons, x.Icpt = encBytes(r.Method), encBytes(r.URL), encBytes(r.Cons), encBytes(r.Icpt)
	return json.Marshal(x)
}

func (r *Rec) UnmarshalJSON(b []byte) error {
	var x recJSON
	if err := json.Unmarshal(b, &x); err != nil {
		return err
	}
	x.Method, x.URL, x.Cons, x.Icpt = decBytes(x.Method), decBytes(x.URL), decBytes(x.Cons), decBytes(x.Icpt)
	*r = Rec(x)
	return nil
}

// ---------------------------------------------------------------- observations

type Pair struct {
	From string `json:"from"`
	To   string `json:"to"`
}

// What the implementation did with one batch.
type BatchObs struct {
	Restarted bool `json:"restarted_before"` // state re-read from disk + fresh tree before this batch
	Rejected  bool `json:"rejected"`         // Run returned an error: the batch left no trace in the state
	Converged bool `json:"converged"`        // the tree reported convergence: existing aggregates were re-keyed
	// the URL normalisation the real tree applied, per phase (oracle values for the URLs that occurred)
	RekeyE   []Pair `json:"rekey_endpoints"`
	RekeyC   []Pair `json:"rekey_consumers"`
	ExtractE []Pair `json:"extract_endpoints"`
	ExtractC []Pair `json:"extract_consumers"`
	// false when the recorded tree calls do not have the shape the model expects
	// or when one phase normalised the same URL in two different ways
	OracleOK        bool   `json:"oracle_ok"`
	OracleAmbiguous bool   `json:"oracle_ambiguous,omitempty"` // same URL, two answers within one phase
	OracleWhy       string `json:"oracle_why,omitempty"`
	// restart before this batch: the in-memory aggregation as it was just before
	// (nil in suite faults, where the file may lag behind the memory) and as
	// State.InitializeState read it back from the state file (collisions.go)
	PreRestart  *Final `json:"memory_before_restart,omitempty"`
	PostRestart *Final `json:"memory_after_restart,omitempty"`
	// which tree grouped the records of this flush (settle.go)
	Size       int      `json:"size"`                 // records in the batch, internal ones included
	Accepted   int      `json:"accepted"`             // non-internal records
	StateEmpty bool     `json:"state_empty_before"`   // no endpoint and no consumer aggregate when the flush began
	PreInserts int      `json:"pre_inserts"`          // convergence-reporting inserts seen before any other tree call
	Unsettled  []string `json:"unsettled,omitempty"`  // grouping look-ups whose answer the tree no longer gives when Run has returned
	// the tree calls of this flush one by one, and for every URL of those calls the
	// key the tree gives once Run has returned (settle.go, SettleCalls.v)
	Calls   []treeEvent `json:"-"`
	EndKeys []Pair      `json:"-"`
}

type StatusCount struct {
	Status int `json:"status"`
	Count  int `json:"count"`
}

type EndpointObs struct {
	Consumer string        `json:"consumer,omitempty"`
	Method   string        `json:"method"`
	URL      string        `json:"url"`
	Count    int           `json:"count"`
	Statuses []StatusCount `json:"status_codes"`
	Min      int64         `json:"min_time"`
	Max      int64         `json:"max_time"`
	AvgDur   float64       `json:"average_duration"`
	AvgTDur  float64       `json:"average_total_duration"`
}

type IcptObs struct {
	Type    string `json:"type"`
	Version string `json:"version"`
	TS      int64  `json:"timestamp"`
}

type Final struct {
	Endpoints    []EndpointObs `json:"endpoints"`
	Consumers    []EndpointObs `json:"consumers"`
	Interceptors []IcptObs     `json:"interceptors"`
}

// ---------------------------------------------------------------- recording tree

type treeEvent struct {
	kind string // "conv-insert" | "insert" | "lookup"
	url  string
	res  string
	conv bool
	err  bool
}

type recTree struct {
	inner  *common.SimpleURLTree
	events []treeEvent
	// self-test of suite settle only (C15_SETTLE_SELFTEST=skip-on-empty | no-reinsert, never set
	// by ./check): the wrapper swallows the NormalizeTree inserts of a flush that
	// meets an empty aggregation — what the code does under seeded change C15-9 —
	// so that the suite can be seen to report it without a patched tree of /repo
	swallowConv bool
}

func (t *recTree) Insert(url string, v *common.EmptyStruct) error {
	if settleSelfTest == "no-reinsert" { // NormalizeURL that only looks up: same counts, other calls
		return nil
	}
	err := t.inner.Insert(url, v)
	t.events = append(t.events, treeEvent{kind: "insert", url: url, err: err != nil})
	return err
}

func (t *recTree) InsertDeclaredURL(url string, v *common.EmptyStruct) error {
	return t.inner.InsertDeclaredURL(url, v)
}

func (t *recTree) InsertWithConvergenceIndication(url string, v *common.EmptyStruct) (bool, error) {
	if t.swallowConv {
		return false, nil
	}
	c, err := t.inner.InsertWithConvergenceIndication(url, v)
	t.events = append(t.events, treeEvent{kind: "conv-insert", url: url, conv: c, err: err != nil})
	return c, err
}

func (t *recTree) Lookup(url string) urltree.LookupResult[common.EmptyStruct] {
	r := t.inner.Lookup(url)
	// what common.NormalizeURL makes of it
	res := url
	if r.Match {
		res = r.NormalizedURL
	}
	t.events = append(t.events, treeEvent{kind: "lookup", url: url, res: res})
	return r
}

// ---------------------------------------------------------------- pipeline

type Plan struct {
	Threshold int      `json:"threshold"`
	Declared  []string `json:"declared_urls"` // known endpoints the tree is built from
	Records   []Rec    `json:"records"`
	Cuts      []int    `json:"cuts"`    // batch i = Records[Cuts[i-1]:Cuts[i]] (0 and len implied)
	Restart   []bool   `json:"restart"` // Restart[i]: restart before batch i+1 (len = len(Cuts))
}

func (p *Plan) batches() [][]Rec {
	var out [][]Rec
	prev := 0
	for _, c := range p.Cuts {
		out = append(out, p.Records[prev:c])
		prev = c
	}
	return append(out, p.Records[prev:])
}

func buildTree(p *Plan) *common.SimpleURLTree {
	known := sharedDiscovery.KnownEndpoints{}
	for _, u := range p.Declared {
		known.Endpoints = append(known.Endpoints, sharedDiscovery.Endpoint{Method: "GET", URL: u})
	}
	tree, err := common.BuildTree(known, p.Threshold)
	if err != nil {
		panic(fmt.Sprintf("BuildTree: %v", err))
	}
	return tree
}

var stateSeq int

var settleSelfTest = os.Getenv("C15_SETTLE_SELFTEST")

func openState(path string) *discovery.State {
	st := &discovery.State{DiscoverFilepath: path}
	if err := st.InitializeState(); err != nil {
		panic(fmt.Sprintf("InitializeState: %v", err))
	}
	return st
}

// execute runs the plan on the real code: the functions the plugin calls per
// flush (discovery.Run, which persists) and at start-up (State.InitializeState,
// common.BuildTree) for a restart.
func execute(p *Plan) (obs []BatchObs, fin Final, crash string) {
	defer func() {
		if r := recover(); r != nil {
			crash = fmt.Sprint(r)
		}
	}()
	obs, fin = executeUnguarded(p)
	return
}

func executeUnguarded(p *Plan) ([]BatchObs, Final) {
	stateSeq++
	path := fmt.Sprintf("c15_state_%d.json", stateSeq%4)
	os.Remove(path)
	defer os.Remove(path)
	rt := &recTree{inner: buildTree(p)}
	st := openState(path)
	var obs []BatchObs
	for i, batch := range p.batches() {
		bo := BatchObs{}
		if i > 0 && p.Restart[i-1] {
			bo.Restarted = true
			pre := canonical(st.VerifAggregation())
			st = openState(path)
			post := canonical(st.VerifAggregation())
			bo.PreRestart, bo.PostRestart = &pre, &post
			rt.inner = buildTree(p)
		}
		before := st.VerifAggregation()
		nE := len(before.Endpoints)
		nC := 0
		for _, m := range before.Consumers {
			nC += len(m)
		}
		logs := make([]common.AccessLog, len(batch))
		n := 0
		for j, r := range batch {
			logs[j] = common.AccessLog{
				Timestamp: r.TS, Duration: r.Dur, TotalDuration: r.TDur, StatusCode: r.Status,
				Method: r.Method, URL: r.URL, Interceptor: r.Icpt, ConsumerTag: r.Cons,
				Internal: r.Internal, RequestID: fmt.Sprintf("r%d-%d", i, j),
			}
			if !r.Internal {
				n++
			}
		}
		rt.events = rt.events[:0]
		rt.swallowConv = settleSelfTest == "skip-on-empty" && nE == 0 && nC == 0
		err := discovery.Run(st, logs, rt)
		bo.Rejected = err != nil
		deriveOracle(&bo, rt.events, len(batch) == 0, n, nE, nC)
		observeSettle(&bo, rt, len(batch), n, nE, nC)
		obs = append(obs, bo)
	}
	return obs, canonical(st.VerifAggregation())
}

// deriveOracle splits the recorded tree calls of one Run into the phases of
// runner.go: NormalizeTree (n convergence-reporting inserts), re-keying of the
// existing endpoint and consumer aggregates (only after convergence), grouping
// of the new records by endpoint and by consumer+endpoint.
func deriveOracle(bo *BatchObs, ev []treeEvent, empty bool, n, nE, nC int) {
	bo.OracleOK = true
	fail := func(why string) {
		bo.OracleOK = false
		if bo.OracleWhy == "" {
			bo.OracleWhy = why
		}
	}
	i := 0
	for i < len(ev) && ev[i].kind == "conv-insert" {
		if ev[i].conv {
			bo.Converged = true
		}
		i++
	}
	var looks []treeEvent
	for ; i < len(ev); i++ {
		if ev[i].kind == "lookup" {
			looks = append(looks, ev[i])
		}
	}
	if bo.Rejected {
		bo.Converged = false
		return
	}
	if empty {
		return
	}
	want := 2 * n
	if bo.Converged {
		want += nE + nC
	}
	if len(looks) != want {
		fail(fmt.Sprintf("expected %d normalisations, saw %d", want, len(looks)))
		return
	}
	phase := func(k int) []Pair {
		seen := map[string]string{}
		var out []Pair
		for _, e := range looks[:k] {
			if to, ok := seen[e.url]; ok {
				if to != e.res {
					fail("one phase normalised " + e.url + " as " + to + " and as " + e.res)
					bo.OracleAmbiguous = true
				}
				continue
			}
			seen[e.url] = e.res
			out = append(out, Pair{e.url, e.res})
		}
		looks = looks[k:]
		sort.Slice(out, func(a, b int) bool { return out[a].From < out[b].From })
		return out
	}
	if bo.Converged {
		bo.RekeyE = phase(nE)
		bo.RekeyC = phase(nC)
	}
	bo.ExtractE = phase(n)
	bo.ExtractC = phase(n)
}

func canonicalAgg(cons string, e sharedDiscovery.Endpoint, a sharedDiscovery.EndpointAgg) EndpointObs {
	o := EndpointObs{Consumer: cons, Method: e.Method, URL: e.URL, Count: int(a.Count),
		Min: a.MinTime, Max: a.MaxTime, AvgDur: float64(a.AverageDuration), AvgTDur: float64(a.AverageTotalDuration)}
	for s, c := range a.StatusCodes {
		o.Statuses = append(o.Statuses, StatusCount{s, int(c)})
	}
	sort.Slice(o.Statuses, func(i, j int) bool { return o.Statuses[i].Status < o.Statuses[j].Status })
	return o
}

func lessE(a, b EndpointObs) bool {
	if a.Consumer != b.Consumer {
		return a.Consumer < b.Consumer
	}
	if a.Method != b.Method {
		return a.Method < b.Method
	}
	return a.URL < b.URL
}

func canonical(a *discovery.Agg) Final {
	f := Final{Endpoints: []EndpointObs{}, Consumers: []EndpointObs{}, Interceptors: []IcptObs{}}
	for e, v := range a.Endpoints {
		f.Endpoints = append(f.Endpoints, canonicalAgg("", e, v))
	}
	for c, m := range a.Consumers {
		for e, v := range m {
			f.Consumers = append(f.Consumers, canonicalAgg(c, e, v))
		}
	}
	for i, v := range a.Interceptors {
		f.Interceptors = append(f.Interceptors, IcptObs{i.Type, i.Version, v.Timestamp})
	}
	sort.Slice(f.Endpoints, func(i, j int) bool { return lessE(f.Endpoints[i], f.Endpoints[j]) })
	sort.Slice(f.Consumers, func(i, j int) bool { return lessE(f.Consumers[i], f.Consumers[j]) })
	sort.Slice(f.Interceptors, func(i, j int) bool {
		if f.Interceptors[i].Type != f.Interceptors[j].Type {
			return f.Interceptors[i].Type < f.Interceptors[j].Type
		}
		return f.Interceptors[i].Version < f.Interceptors[j].Version
	})
	return f
}
