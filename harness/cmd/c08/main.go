// C08 harness: drives the real /configuration and /apply_flows handlers of
// routing.HandlingDataManager (net/http/httptest, real temp directories, stub
// HAProxy admin/health endpoints), injects a failure at every verifhook.Fault
// point, runs probe transactions through the real SPOE message handler before,
// during (at every hook call and at the engine.published yield point) and after
// the update, and records
//
//	handler status, sorted (path, content) tree before/after, the sequence
//	of distinct engine views the probe transactions saw, and for the probe
//	transactions that have a request and a response phase (span.go) which
//	configuration served each phase and whether an engine was published
//	between the two.
//
// The monitor (monitor.go) restates the property over these observations; the
// Gallina model (theories/C08/Model.v) is evaluated on the same cases by coqc.
package main

import (
	"bytes"
	"crypto/sha256"
	"encoding/base64"
	"encoding/hex"
	"encoding/json"
	"errors"
	"fmt"
	"io/fs"
	"net/http"
	"net/http/httptest"
	"os"
	"path/filepath"
	"runtime/debug"
	"sort"
	"strings"

	"lunar/engine/actions"
	"lunar/engine/routing"
	"lunar/engine/verifhook"

	"github.com/negasus/haproxy-spoe-go/message"
	"github.com/negasus/haproxy-spoe-go/payload/kv"
	"github.com/negasus/haproxy-spoe-go/request"
	"github.com/rs/zerolog"

	c "verifharness/common"
)

// ---------------------------------------------------------------- vocabulary

// areas (codes shared with Model.v: area_of_N)
const (
	aFlows = iota
	aQuotas
	aPathParams
	aGateway
	aMetricsUser
	aMetricsDefault
	aOutside
)

var areaName = []string{"flows", "quotas", "path_params", "gateway_config", "metrics_user", "metrics_default", "outside"}

type Ent struct {
	Area    int    `json:"area"`
	Rel     string `json:"rel"`
	Content int    `json:"content"` // interned byte string (0 = empty); see Contents table
	Sha     string `json:"sha256"`
}

type PEntry struct {
	Src       int    `json:"src"`  // which map / field of the payload (area code)
	Name      string `json:"name"` // file name as sent
	TArea     int    `json:"target_area"`
	TRel      string `json:"target_rel"`
	Content   int    `json:"content"`
	Decodable bool   `json:"decodable"` // false: the base64 text is corrupted
}

type HookEv struct {
	Point string `json:"point"`
	Area  int    `json:"area"`
	Rel   string `json:"rel"`
}

type ViewEnt struct {
	Rel     string `json:"rel"`
	Content int    `json:"content"` // -1: a verdict no known file content produces
}

type Arrival struct {
	At   string    `json:"at"`
	View []ViewEnt `json:"view"`
	Pubs int       `json:"engine_publications_so_far"` // engine.published events up to and including this point
}

// Landing: where a payload file name of a directory field resolves to
// (filepath.Join(directory, name), computed by the harness on its own), and
// what was at that very path right before and right after the request -- read
// directly with os.ReadFile, whatever the place.
type Landing struct {
	Src      int    `json:"src"`
	Name     string `json:"name"`
	Path     string `json:"path_rel_to_box"`
	StaysIn  bool   `json:"stays_inside_its_directory"`
	ShaBefor string `json:"sha256_before"` // "absent" / "directory" / digest
	ShaAfter string `json:"sha256_after"`
}

type Case struct {
	Handler     string         `json:"handler"` // configuration | apply_flows
	Method      string         `json:"method"`
	BodyOK      bool           `json:"body_is_json"`
	Before      []Ent          `json:"before"`
	Payload     []PEntry       `json:"payload"`
	BadContents []int          `json:"contents_failing_validation"`
	BadMetrics  []int          `json:"contents_failing_metrics_reload"`
	Fault       int            `json:"fault_at_hook"` // -1: none
	Label       string         `json:"label"`
	Contents    map[int]string `json:"contents"` // content token -> the bytes (replay)

	// observed
	Status     int         `json:"status"`
	After      []Ent       `json:"after"`
	HookSeq    []HookEv    `json:"hook_sequence"`
	Arrivals   []Arrival   `json:"arrivals"`
	FaultFired bool        `json:"fault_fired"`
	RollbackAt int         `json:"rollback_started_at_hook"` // hook index at the first Restore call, -1: none
	Landings   []Landing   `json:"landings"`
	TreeBefore []Ent       `json:"tree_before_observed"` // the walk of box right before the request
	Views      [][]ViewEnt `json:"distinct_views_in_order"`
	Spans      []Span      `json:"two_phase_transactions"` // distinct (switch between the phases, request view, response view)
	SpanCount  int         `json:"two_phase_transactions_run"`
	PubsTotal  int         `json:"engine_publications"`
	Tree       []TreePair  `json:"tree"` // which of the paths of this case lie below which (computed from the absolute paths)
}

type PathRef struct {
	Area int    `json:"area"`
	Rel  string `json:"rel"`
}

// TreePair: Below lies below Dir taken as a directory (Dir is a proper prefix of Below).
type TreePair struct {
	Dir   PathRef `json:"dir"`
	Below PathRef `json:"below"`
}

// treeOf lists the prefix relation among all the paths a case mentions: the
// files before and after, the payload targets and the paths of the hook calls.
func (s *sut) treeOf(k *Case) []TreePair {
	seen := map[PathRef]bool{}
	var all []PathRef
	add := func(a int, r string) {
		p := PathRef{a, r}
		if !seen[p] {
			seen[p] = true
			all = append(all, p)
		}
	}
	for _, e := range k.Before {
		add(e.Area, e.Rel)
	}
	for _, e := range k.Payload {
		add(e.TArea, e.TRel)
	}
	for _, e := range k.After {
		add(e.Area, e.Rel)
	}
	for _, e := range k.HookSeq {
		add(e.Area, e.Rel)
	}
	var out []TreePair
	for _, d := range all {
		da := s.abs(d.Area, d.Rel)
		for _, b := range all {
			if d != b && strings.HasPrefix(s.abs(b.Area, b.Rel), da+string(filepath.Separator)) {
				out = append(out, TreePair{d, b})
			}
		}
	}
	return out
}

// ---------------------------------------------------------------- interning

type interner struct {
	contents map[string]int
	bytesOf  []string
	rels     map[string]int
	relOf    []string
}

var in = &interner{contents: map[string]int{"": 0}, bytesOf: []string{""}, rels: map[string]int{"": 0}, relOf: []string{""}}

func (i *interner) content(b string) int {
	if t, ok := i.contents[b]; ok {
		return t
	}
	t := len(i.bytesOf)
	i.contents[b] = t
	i.bytesOf = append(i.bytesOf, b)
	return t
}
func (i *interner) rel(r string) int {
	if t, ok := i.rels[r]; ok {
		return t
	}
	t := len(i.relOf)
	i.rels[r] = t
	i.relOf = append(i.relOf, r)
	return t
}
func sha(b string) string { h := sha256.Sum256([]byte(b)); return hex.EncodeToString(h[:8]) }

// ---------------------------------------------------------------- the system under test

type sut struct {
	L       layout
	mgr     *routing.HandlingDataManager
	mux     *http.ServeMux
	spoe    routing.MessageHandler
	run     *runState
	txn     int
	hooksOn bool // the tree under test carries the fs.* fault hooks
	yieldOn bool
	// verdict -> content: (flow file rel, status code) -> content token
	verdict map[string]int
}

type runState struct {
	k       *Case
	hookIdx int
	names   []string // flow files probed
	pubs    int      // engine.published events so far
	arrIdx  int      // arrival points so far
	open    []*openSpan
	pool    []*openSpan // transactions begun at "before", one of them ended after each publication and at the end
	poolAt  int         // publications when a pool transaction was last ended
	longAt  int         // publications when a transaction to be ended at "after" was last begun; -1: never
}

func (s *sut) classify(abs string) (int, string) {
	abs = filepath.Clean(abs)
	under := func(dir string) (string, bool) {
		r, err := filepath.Rel(dir, abs)
		if err != nil || r == "." || r == ".." || strings.HasPrefix(r, "../") {
			return "", false
		}
		return r, true
	}
	switch abs {
	case s.L.gateway:
		return aGateway, ""
	case s.L.metricsUser:
		return aMetricsUser, ""
	case s.L.metricsDefault:
		return aMetricsDefault, ""
	}
	if r, ok := under(s.L.flows); ok {
		return aFlows, r
	}
	if r, ok := under(s.L.quotas); ok {
		return aQuotas, r
	}
	if r, ok := under(s.L.pathParams); ok {
		return aPathParams, r
	}
	r, _ := filepath.Rel(s.L.root, abs)
	return aOutside, r
}

func (s *sut) abs(area int, rel string) string {
	switch area {
	case aFlows:
		return filepath.Join(s.L.flows, rel)
	case aQuotas:
		return filepath.Join(s.L.quotas, rel)
	case aPathParams:
		return filepath.Join(s.L.pathParams, rel)
	case aGateway:
		return s.L.gateway
	case aMetricsUser:
		return s.L.metricsUser
	case aMetricsDefault:
		return s.L.metricsDefault
	}
	return filepath.Join(s.L.root, rel)
}

// tree lists every regular file below box: the configuration places and
// everything around them up to three levels above the directories (generated
// artefacts live in cwd/gen, outside box, and are not part of it).
func (s *sut) tree() []Ent {
	var out []Ent
	for _, top := range []string{s.L.box} {
		_ = filepath.WalkDir(top, func(p string, d fs.DirEntry, err error) error {
			if err != nil || d.IsDir() {
				return nil
			}
			b, err := os.ReadFile(p)
			if err != nil {
				panic(err)
			}
			a, r := s.classify(p)
			out = append(out, Ent{a, r, in.content(string(b)), sha(string(b))})
			return nil
		})
	}
	sortEnts(out)
	return out
}

func sortEnts(e []Ent) {
	sort.Slice(e, func(i, j int) bool {
		if e[i].Area != e[j].Area {
			return e[i].Area < e[j].Area
		}
		return e[i].Rel < e[j].Rel
	})
}

func (s *sut) wipe() {
	if err := os.RemoveAll(s.L.box); err != nil {
		panic(err)
	}
	for _, d := range []string{s.L.flows, s.L.quotas, s.L.pathParams, filepath.Dir(s.L.metricsDefault), filepath.Dir(s.L.gen), s.L.outside} {
		if err := os.MkdirAll(d, 0o755); err != nil {
			panic(err)
		}
	}
}

// resetTo puts the disk into the given state and makes the running engine the
// one built from it (POST /load_flows = reloadFlows).
func (s *sut) resetTo(before []Ent) {
	s.wipe()
	for _, e := range before {
		p := s.abs(e.Area, e.Rel)
		if err := os.MkdirAll(filepath.Dir(p), 0o755); err != nil {
			panic(err)
		}
		if err := os.WriteFile(p, []byte(in.bytesOf[e.Content]), 0o644); err != nil {
			panic(err)
		}
	}
	rec := httptest.NewRecorder()
	s.mux.ServeHTTP(rec, httptest.NewRequest(http.MethodPost, "/load_flows", nil))
	if rec.Code != 200 {
		panic(fmt.Sprintf("reset: /load_flows answered %d %s", rec.Code, rec.Body.String()))
	}
}

// probe sends one request transaction per flow file through the real SPOE
// handler and maps each verdict back to the file content that produces it.
func (s *sut) probe(names []string) []ViewEnt {
	view := []ViewEnt{}
	for _, n := range names {
		host := hostOf(n)
		s.txn++
		id := fmt.Sprintf("probe-%d", s.txn)
		kvs := kv.NewKV()
		kvs.Add("id", id)
		kvs.Add("sequence_id", id)
		kvs.Add("method", "GET")
		kvs.Add("scheme", "https")
		kvs.Add("url", host+"/x")
		kvs.Add("path", "/x")
		kvs.Add("query", "")
		kvs.Add("headers", "")
		kvs.Add("body", []byte(""))
		req := request.Request{Messages: &message.Messages{{Name: "lunar-on-request", KV: kvs}}}
		s.spoe(&req)
		status := 0
		for _, a := range req.Actions {
			if a.Name == actions.StatusCodeActionName {
				switch v := a.Value.(type) {
				case int:
					status = v
				case int64:
					status = int(v)
				}
			}
		}
		if status == 0 {
			continue // passed through: no flow of this file is loaded
		}
		tok, ok := s.verdict[fmt.Sprintf("%s#%d", n, status)]
		if !ok {
			tok = -1
		}
		view = append(view, ViewEnt{n, tok})
	}
	return view
}

func (s *sut) arrive(at string) {
	r := s.run
	if at == "engine.published" {
		r.pubs++
	}
	r.k.Arrivals = append(r.k.Arrivals, Arrival{at, s.probe(r.names), r.pubs})
	s.spanStep(at, at == "after")
	r.arrIdx++
}

func (s *sut) onFault(point, arg string) error {
	r := s.run
	if r == nil {
		return nil
	}
	a, rel := aOutside, ""
	if arg != "" {
		a, rel = s.classify(arg)
	}
	if point == "engine.init" {
		a, rel = aOutside, ""
	}
	s.arrive(fmt.Sprintf("%s#%d", point, r.hookIdx))
	r.k.HookSeq = append(r.k.HookSeq, HookEv{point, a, rel})
	idx := r.hookIdx
	r.hookIdx++
	if idx == r.k.Fault {
		r.k.FaultFired = true
		return errors.New("verif: injected fault")
	}
	return nil
}

func (s *sut) onEvent(kind string, _ ...string) {
	if r := s.run; r != nil && kind == "fs.restore" && r.k.RollbackAt < 0 {
		r.k.RollbackAt = r.hookIdx
	}
}

func (s *sut) onYield(point string) {
	if s.run == nil {
		return
	}
	s.arrive(point)
}

func (s *sut) body(k *Case) []byte {
	if !k.BodyOK {
		return []byte(`{"flows": {"a.yaml": `)
	}
	m := map[string]any{}
	sub := map[int]map[string]string{}
	for _, e := range k.Payload {
		b64 := base64.StdEncoding.EncodeToString([]byte(in.bytesOf[e.Content]))
		if !e.Decodable {
			b64 = "!!" + b64 + "*"
		}
		switch e.Src {
		case aGateway:
			m["gateway_config"] = b64
		case aMetricsUser:
			m["metrics"] = b64
		default:
			if sub[e.Src] == nil {
				sub[e.Src] = map[string]string{}
			}
			sub[e.Src][e.Name] = b64
		}
	}
	for a, mm := range sub {
		m[areaName[a]] = mm
	}
	b, err := json.Marshal(m)
	if err != nil {
		panic(err)
	}
	return b
}

// exec runs one update on the implementation and fills the observed fields.
func (s *sut) exec(k *Case) {
	k.Status, k.After, k.HookSeq, k.Arrivals, k.FaultFired, k.Views, k.RollbackAt = 0, nil, nil, nil, false, nil, -1
	k.Spans, k.SpanCount, k.PubsTotal = nil, 0, 0
	k.Landings, k.TreeBefore = nil, nil
	s.resetTo(k.Before)
	k.TreeBefore = s.tree()
	for _, e := range k.Payload {
		if dir := s.dirOf(e.Src); dir != "" {
			p := filepath.Join(dir, e.Name)
			rel, _ := filepath.Rel(s.L.box, p)
			k.Landings = append(k.Landings, Landing{Src: e.Src, Name: e.Name, Path: rel,
				StaysIn: p != dir && strings.HasPrefix(p, dir+string(filepath.Separator)), ShaBefor: shaAt(p)})
		}
	}
	names := map[string]bool{}
	for _, e := range k.Before {
		if e.Area == aFlows {
			names[e.Rel] = true
		}
	}
	for _, e := range k.Payload {
		if e.TArea == aFlows {
			names[e.TRel] = true
		}
	}
	r := &runState{k: k, longAt: -1}
	for n := range names {
		r.names = append(r.names, n)
	}
	sort.Strings(r.names)
	s.run = r
	s.arrive("before")
	rec := httptest.NewRecorder()
	s.mux.ServeHTTP(rec, httptest.NewRequest(k.Method, "/"+k.Handler, bytes.NewReader(s.body(k))))
	s.arrive("after")
	s.run = nil
	k.PubsTotal = r.pubs
	k.Status = rec.Code
	k.After = s.tree()
	k.Tree = s.treeOf(k)
	for i := range k.Landings {
		k.Landings[i].ShaAfter = shaAt(filepath.Join(s.L.box, k.Landings[i].Path))
	}
	for _, a := range k.Arrivals {
		if n := len(k.Views); n == 0 || !sameView(k.Views[n-1], a.View) {
			k.Views = append(k.Views, a.View)
		}
	}
}

func (s *sut) dirOf(src int) string {
	switch src {
	case aFlows:
		return s.L.flows
	case aQuotas:
		return s.L.quotas
	case aPathParams:
		return s.L.pathParams
	}
	return ""
}

func shaAt(p string) string {
	st, err := os.Lstat(p)
	if err != nil {
		return "absent"
	}
	if st.IsDir() {
		return "directory"
	}
	b, err := os.ReadFile(p)
	if err != nil {
		return "unreadable: " + err.Error()
	}
	return sha(string(b))
}

func sameView(a, b []ViewEnt) bool {
	if len(a) != len(b) {
		return false
	}
	for i := range a {
		if a[i] != b[i] {
			return false
		}
	}
	return true
}

func newSut() *sut {
	cwd, _ := os.Getwd()
	s := &sut{L: mkLayout(cwd), verdict: map[string]int{}}
	zerolog.SetGlobalLevel(zerolog.Disabled)
	startStubs()
	s.wipe()
	if err := os.WriteFile(s.L.metricsDefault, []byte(defaultMetrics()), 0o644); err != nil {
		panic(err)
	}
	verifhook.SetFault(s.onFault)
	verifhook.SetYield(s.onYield)
	verifhook.SetEvent(s.onEvent)
	s.mgr = routing.NewHandlingDataManager(10, nil)
	if err := s.mgr.VerifC08SetupStreams(); err != nil {
		panic(err)
	}
	s.mux = http.NewServeMux()
	s.mgr.SetHandleRoutes(s.mux)
	s.spoe = routing.Handler(s.mgr)
	return s
}

// ---------------------------------------------------------------- Coq rendering

func coqPath(area int, rel string) string {
	return c.Tuple(c.N(uint64(area)), c.N(uint64(in.rel(rel))))
}
func coqDisk(es []Ent) string {
	return c.MapList(es, func(e Ent) string { return c.Tuple(coqPath(e.Area, e.Rel), c.N(uint64(e.Content))) })
}
func coqView(v []ViewEnt) string {
	return c.MapList(v, func(e ViewEnt) string {
		t := uint64(e.Content)
		if e.Content < 0 {
			t = 999999999
		}
		return c.Tuple(c.N(uint64(in.rel(e.Rel))), c.N(t))
	})
}
func coqNs(xs []int) string {
	return c.MapList(xs, func(x int) string { return c.N(uint64(x)) })
}

func coq(k *Case) string {
	h := 0
	if k.Handler == "apply_flows" {
		h = 1
	}
	fault := "None"
	if k.Fault >= 0 {
		fault = c.Some(c.Nat(k.Fault))
	}
	// the hook calls made before Restore was first called: the clean-up and the saves
	saveHooks := k.HookSeq
	if k.RollbackAt >= 0 && k.RollbackAt <= len(saveHooks) {
		saveHooks = saveHooks[:k.RollbackAt]
	}
	hookPaths := func(es []HookEv) string {
		return c.MapList(es, func(e HookEv) string { return coqPath(e.Area, e.Rel) })
	}
	return c.Tuple(
		c.Tuple(c.N(uint64(h)), c.B(k.Method == http.MethodPut), c.B(k.BodyOK)),
		coqDisk(k.Before),
		c.MapList(k.Payload, func(e PEntry) string {
			return c.Tuple(c.N(uint64(e.Src)), coqPath(e.TArea, e.TRel), c.N(uint64(e.Content)), c.B(e.Decodable))
		}),
		c.Tuple(coqNs(k.BadContents), coqNs(k.BadMetrics)),
		fault,
		c.Tuple(hookPaths(saveHooks), hookPaths(k.HookSeq)),
		c.Tuple(c.B(k.Status == 200), coqDisk(k.After), c.MapList(k.Views, coqView)),
		c.MapList(k.Spans, func(sp Span) string {
			return c.Tuple(c.B(sp.Pubs > 0), coqView(sp.Req), coqView(sp.Resp))
		}),
		c.MapList(k.Tree, func(t TreePair) string {
			return c.Tuple(coqPath(t.Dir.Area, t.Dir.Rel), coqPath(t.Below.Area, t.Below.Rel))
		}),
	)
}

// beforeIsTree: the disk handed to the model lists no path twice and no file
// below another file (under the tree list of the same case).  Model.run_case
// decides the same thing (case_before_ok) and refuses the case otherwise; the
// walk of a real directory always passes.
func beforeIsTree(k *Case) bool {
	in := map[PathRef]bool{}
	for _, e := range k.Before {
		p := PathRef{e.Area, e.Rel}
		if in[p] {
			return false
		}
		in[p] = true
	}
	for _, t := range k.Tree {
		if in[t.Dir] && in[t.Below] {
			return false
		}
	}
	return true
}

// ---------------------------------------------------------------- main

func main() {
	if os.Getenv(childEnv) == "" {
		reexecWithEnv()
	}
	debug.SetGCPercent(400) // many short-lived engines: trade memory for time
	o := c.NewOut("C08")
	o.DeclareSuite("update", "From Verif Require Import C08.Model.", "case", "run_case")
	o.Rule("generated (disk, payload, handler) triples: payloads add / change / re-send / (apply_flows) remove files of the " +
		"five configuration places, with undecodable base64, undecodable JSON, wrong HTTP method, contents failing " +
		"validation, contents failing the metrics reload, file names leaving their directory (../x, ../../outside/x, a/../../x, onto a " +
		"sibling directory, onto the gateway file, onto an existing outside file, the directory itself, into a sibling of the directory " +
		"whose name has the directory's name as a string prefix -- ../flows-disabled/x.yaml, ../quotas-old/q.yaml, ../path_params.bak/p.yaml, " +
		"../flows.bak -- existing or not, in updates refused later and in otherwise fine ones), odd names that stay " +
		"inside (sub/x, ./x, a/../x, /abs/x, ..x), names that make a file of a directory or a directory of a file (a name that is a " +
		"sub-directory of the disk, a name below an existing file, one and two levels deep, names of one payload that are " +
		"prefixes of each other); each triple is " +
		"run without fault and then once per verifhook.Fault call index of that run (fs.store, fs.remove, engine.init; for a " +
		"bad payload the calls of the roll-back are included), probes at every hook call, at the engine.published yield, " +
		"before and after; at each of these points single-phase probe transactions (answered early by the flow) and two-phase " +
		"probe transactions (let through: lunar-on-request at one point, lunar-on-response with the same id at a later one -- " +
		"the next point, after the next publication, at the end); distinct = distinct (inputs, observables); non-trivial = the " +
		"update failed after at least one fs.store / fs.remove call had been made, or succeeded and changed the engine view")
	o.Note("Model.run_case first decides that the before disk of the case is a file system (no path listed twice, no file below " +
		"another file under the tree list of the same case: case_before_ok = distinct_keysb && treeb) and answers mismatch " +
		"(result code 3) otherwise: C08_accepted_case_disk_is_a_tree")
	s := newSut()
	s.calibrate(o)
	var k Case
	if _, ok := o.ReplayCase(&k); ok {
		s.reintern(&k)
		s.runCase(o, &k)
		o.Finish()
		return
	}
	generate(o, s)
	o.Finish()
}

// calibrate finds out whether the tree under test carries the hooks.
func (s *sut) calibrate(o *c.Out) {
	g := newGen(o.Rng.Fork(99))
	k := Case{Handler: "configuration", Method: http.MethodPut, BodyOK: true, Fault: -1,
		Before: g.baseDisk(s, 1), Payload: []PEntry{g.flowEntry(s, 1, 2, true)}}
	s.exec(&k)
	for _, e := range k.HookSeq {
		if strings.HasPrefix(e.Point, "fs.") {
			s.hooksOn = true
		}
	}
	for _, a := range k.Arrivals {
		if a.At == "engine.published" {
			s.yieldOn = true
		}
	}
	if !s.hooksOn {
		o.Note("the tree under test has no fs.store/fs.remove fault hooks (patches/C08/hook-fs-fault.patch not applied): no fault can be injected, only payload-induced failures are exercised")
	}
	if !s.yieldOn {
		o.Note("the tree under test has no engine.published yield point (patches/C08/hook-engine-publish.patch not applied): no probe runs between publication and initialisation")
	}
}

func (s *sut) runCase(o *c.Out, k *Case) {
	s.exec(k)
	nontrivial := false
	if k.Status != 200 {
		for _, e := range k.HookSeq {
			if strings.HasPrefix(e.Point, "fs.") {
				nontrivial = true
			}
		}
	} else if len(k.Views) > 1 {
		nontrivial = true
	}
	o.Count("handler=" + k.Handler)
	o.Count(fmt.Sprintf("status=%d", k.Status))
	o.Count(fmt.Sprintf("payload_files=%02d", len(k.Payload)))
	o.Count(fmt.Sprintf("hook_calls=%02d", len(k.HookSeq)))
	if k.Fault >= 0 && k.FaultFired {
		o.Count("fault_at=" + k.HookSeq[k.Fault].Point)
	} else if k.Fault >= 0 {
		o.Count("fault_at=beyond-last-call")
	} else {
		o.Count("fault_at=none")
	}
	o.Count(fmt.Sprintf("distinct_views=%d", len(k.Views)))
	o.Count("kind=" + k.Label)
	for _, l := range k.Landings {
		if !l.StaysIn {
			o.Count(fmt.Sprintf("escaping_name_status=%d", k.Status))
			break
		}
	}
	for _, l := range k.Landings {
		// not below the directory, yet the directory's path is a string prefix of the landing path
		if d := s.dirOf(l.Src); !l.StaysIn && strings.HasPrefix(filepath.Join(s.L.box, l.Path), d) && filepath.Join(s.L.box, l.Path) != d {
			o.Count(fmt.Sprintf("sibling_prefix_name_status=%d", k.Status))
			break
		}
	}
	if !beforeIsTree(k) {
		// Model.run_case answers with a mismatch (result code 3) on such a case
		// whatever the gateway did; say why in the distribution
		o.Count("before_disk_not_a_tree(model refuses the case: code 3)")
	}
	idx := o.Case("update", coq(k), k, nontrivial)
	o.MonitorChecked(1)
	for _, h := range monitor(k) {
		h.Suite, h.Index = "update", idx
		o.Hit(h)
	}
}

// reintern maps the tokens of a replayed case (which index the tables of the
// run that wrote it) onto this run's tables, using the contents table the
// replay file carries.
func (s *sut) reintern(k *Case) {
	g := newGen(c.NewRng(1))
	g.rebuild(s, k)
}
