// Property monitor of C08, stated over what the implementation did and what the
// payload says, independently of the Gallina model:
//
//	(1) an update that was rejected or failed (status != 200) leaves the tree of
//	    configuration files byte-for-byte as it was, and the probe transactions
//	    after it get the verdicts they got before it; "the tree" is everything
//	    below box as walked right before and right after the request, and, on
//	    top of that, the very path every payload file name resolves to
//	    (filepath.Join(directory, name), wherever that is), read directly
//	    before and after -- a name that leaves its directory must not leave
//	    anything behind either;
//	(2) every probe transaction, whenever it arrives (before, at any hook call,
//	    at the publication point, after), is served entirely by the old
//	    configuration or entirely by the configuration the payload describes --
//	    never by an empty, half-built or otherwise different engine.
//
// A run in which the injected fault hit the roll-back itself (after the update
// had already failed for another reason) has two independent failures; no
// implementation without a journal can restore then, so (1)/(2) are not demanded.
package main

import (
	"fmt"
	"sort"
	"strings"

	c "verifharness/common"
)

type fileKey struct {
	Area int
	Rel  string
}

func treeMap(es []Ent) map[fileKey]string {
	m := map[fileKey]string{}
	for _, e := range es {
		m[fileKey{e.Area, e.Rel}] = e.Sha
	}
	return m
}

// the engine view the payload describes, from the inputs alone
func describedView(k *Case) []ViewEnt {
	m := map[string]int{}
	if k.Handler == "configuration" {
		for _, e := range k.Before {
			if e.Area == aFlows {
				m[e.Rel] = e.Content
			}
		}
	}
	for _, e := range k.Payload {
		if e.TArea == aFlows {
			m[e.TRel] = e.Content
		}
	}
	var names []string
	for n := range m {
		names = append(names, n)
	}
	sort.Strings(names)
	v := []ViewEnt{}
	for _, n := range names {
		v = append(v, ViewEnt{n, m[n]})
	}
	return v
}

func viewStr(v []ViewEnt) string {
	var p []string
	for _, e := range v {
		p = append(p, fmt.Sprintf("%s=content#%d", e.Rel, e.Content))
	}
	return "{" + strings.Join(p, ", ") + "}"
}

func monitor(k *Case) []c.Hit {
	var hits []c.Hit
	add := func(sig, dem, obs string) {
		hits = append(hits, c.Hit{Signature: sig, Demanded: dem, Observed: obs, Case: k})
	}
	if k.FaultFired && k.RollbackAt >= 0 && k.Fault >= k.RollbackAt {
		return nil // second, independent failure inside the roll-back
	}
	old := k.Arrivals[0].View
	last := k.Arrivals[len(k.Arrivals)-1].View
	described := describedView(k)

	if k.Status != 200 {
		before, after := treeMap(k.TreeBefore), treeMap(k.After)
		var diff []string
		covered, uncoveredDefault, uncoveredOutside := 0, 0, 0
		note := func(f fileKey, what string) {
			diff = append(diff, fmt.Sprintf("%s %s/%s", what, areaName[f.Area], f.Rel))
			switch f.Area {
			case aMetricsDefault:
				uncoveredDefault++
			case aOutside:
				uncoveredOutside++
			default:
				covered++
			}
		}
		for f, h := range before {
			if h2, ok := after[f]; !ok {
				note(f, "deleted")
			} else if h2 != h {
				note(f, "changed")
			}
		}
		for f := range after {
			if _, ok := before[f]; !ok {
				note(f, "added")
			}
		}
		// the places the payload's own file names point at, inspected directly; one
		// below box that differs is in the walk's diff already
		for _, l := range k.Landings {
			walked := l.Path != ".." && !strings.HasPrefix(l.Path, "../")
			if l.ShaBefor == l.ShaAfter || (walked && l.ShaBefor != "directory" && l.ShaAfter != "directory") {
				continue
			}
			diff = append(diff, fmt.Sprintf("path %s (payload %s name %q) was %s, is %s",
				l.Path, areaName[l.Src], l.Name, l.ShaBefor, l.ShaAfter))
			if l.StaysIn {
				covered++
			} else {
				uncoveredOutside++
			}
		}
		sort.Strings(diff)
		if len(diff) > 0 {
			sig := "disk-not-restored:" + k.Handler
			switch {
			case k.Status == 405:
				sig = "rejected-but-applied:" + k.Handler
			case covered == 0 && uncoveredDefault > 0 && uncoveredOutside == 0:
				sig = "metrics-written-outside-snapshot:SaveMetricsConfig"
			case covered == 0 && uncoveredDefault == 0 && uncoveredOutside > 0:
				sig = "file-name-escapes-snapshot:payload-file-name"
			}
			add(sig, fmt.Sprintf("status %d: the configuration tree is byte-for-byte what it was before the update", k.Status),
				strings.Join(diff, "; "))
		}
		if !sameView(old, last) {
			add("engine-not-restored:"+k.Handler,
				fmt.Sprintf("status %d: probes after the failed update behave as before it %s", k.Status, viewStr(old)),
				"after: "+viewStr(last))
		}
	}
	for _, a := range k.Arrivals {
		if sameView(a.View, old) || sameView(a.View, described) {
			continue
		}
		at := a.At
		if i := strings.Index(at, "#"); i >= 0 {
			at = at[:i]
		}
		sig := "mixed-engine-served:" + at
		if len(a.View) == 0 {
			sig = "empty-engine-served:" + at
		}
		add(sig, fmt.Sprintf("a transaction arriving at %s is served entirely by the old %s or entirely by the new %s configuration",
			a.At, viewStr(old), viewStr(described)), "served by "+viewStr(a.View))
		break
	}
	return hits
}
