// Property monitor of C08, stated over what the implementation did and what the
// payload says, independently of the Gallina model:
//
//	(1) an update that was rejected or failed (status != 200) leaves the tree of
//	    configuration files byte-for-byte as it was, and the probe transactions
//	    after it get the verdicts they got before it; "the tree" is everything
//	    below box as walked right before and right after the request, and, on
//	    top of that, the very path every payload file name resolves to
//	    (filepath.Join(directory, name), wherever that is), read directly
//	    before and after -- a name that leaves its directory must not leave
//	    anything behind either;
//	(2) every probe transaction, whenever it arrives (before, at any hook call,
//	    at the publication point, after), is served entirely by the old
//	    configuration or entirely by the configuration the payload describes --
//	    never by an empty, half-built or otherwise different engine.
//
//	(3) a probe transaction that is let through to the upstream has a request
//	    phase and a response phase, run at two different points of the update:
//	    both phases are served by the same configuration (old, or the one the
//	    payload describes);
//	(4) while an update that ends up rejected is in progress, no transaction is
//	    served by the configuration that is being rejected;
//	(5) an accepted update (status 200) has written no file outside the directory
//	    its kind belongs to: the whole configuration root is walked before and
//	    after, nothing outside the five configuration places differs, and the
//	    path of a payload file name that is not below its directory (element by
//	    element, as filepath.Rel sees it -- a sibling such as cfg/flows-disabled
//	    shares the string prefix of cfg/flows and is NOT below it) has not
//	    received the bytes of that payload entry.
//
// Three ways in which the gateway is known not to meet this are classified
// with signatures of their own (open known findings, known_findings.d/C08.json);
// the classifiers use only what the hooks report:
//
//	second-failure-in-rollback:Restore      the injected fault fired at a hook call
//	    made after Restore had been called (the update had failed for another
//	    reason before): every hit of such a run gets this signature;
//	txn-split-across-switch:processResponse  the two phases of a transaction were
//	    served by two different complete configurations AND at least one
//	    engine.published event lies between them;
//	rejected-config-served:reloadFlows       the update failed, the engine was
//	    published at least twice during it (the new one, then the one rebuilt by
//	    the roll-back), and a transaction arriving between the first and the
//	    last publication was served by the configuration the payload describes.
//
// Anything else is a violation.
package main

import (
	"fmt"
	"sort"
	"strings"

	c "verifharness/common"
)

type fileKey struct {
	Area int
	Rel  string
}

func treeMap(es []Ent) map[fileKey]string {
	m := map[fileKey]string{}
	for _, e := range es {
		m[fileKey{e.Area, e.Rel}] = e.Sha
	}
	return m
}

// the engine view the payload describes, from the inputs alone
func describedView(k *Case) []ViewEnt {
	m := map[string]int{}
	if k.Handler == "configuration" {
		for _, e := range k.Before {
			if e.Area == aFlows {
				m[e.Rel] = e.Content
			}
		}
	}
	for _, e := range k.Payload {
		if e.TArea == aFlows {
			m[e.TRel] = e.Content
		}
	}
	var names []string
	for n := range m {
		names = append(names, n)
	}
	sort.Strings(names)
	v := []ViewEnt{}
	for _, n := range names {
		v = append(v, ViewEnt{n, m[n]})
	}
	return v
}

func viewStr(v []ViewEnt) string {
	var p []string
	for _, e := range v {
		p = append(p, fmt.Sprintf("%s=content#%d", e.Rel, e.Content))
	}
	return "{" + strings.Join(p, ", ") + "}"
}

const (
	sigSecondFailure = "second-failure-in-rollback:Restore"
	sigSplit         = "txn-split-across-switch:processResponse"
	sigRejected      = "rejected-config-served:reloadFlows"
)

func monitor(k *Case) []c.Hit {
	var hits []c.Hit
	// a second, independent failure inside the roll-back (F-C08h)
	second := k.FaultFired && k.RollbackAt >= 0 && k.Fault >= k.RollbackAt
	add := func(sig, dem, obs string) {
		if second {
			obs = "[the injected fault fired at hook call #" + fmt.Sprint(k.Fault) + ", after Restore had started at #" +
				fmt.Sprint(k.RollbackAt) + "; would be " + sig + "] " + obs
			sig = sigSecondFailure
		}
		hits = append(hits, c.Hit{Signature: sig, Demanded: dem, Observed: obs, Case: k})
	}
	old := k.Arrivals[0].View
	last := k.Arrivals[len(k.Arrivals)-1].View
	described := describedView(k)

	if k.Status != 200 {
		before, after := treeMap(k.TreeBefore), treeMap(k.After)
		var diff []string
		covered, uncoveredDefault, uncoveredOutside := 0, 0, 0
		note := func(f fileKey, what string) {
			diff = append(diff, fmt.Sprintf("%s %s/%s", what, areaName[f.Area], f.Rel))
			switch f.Area {
			case aMetricsDefault:
				uncoveredDefault++
			case aOutside:
				uncoveredOutside++
			default:
				covered++
			}
		}
		for f, h := range before {
			if h2, ok := after[f]; !ok {
				note(f, "deleted")
			} else if h2 != h {
				note(f, "changed")
			}
		}
		for f := range after {
			if _, ok := before[f]; !ok {
				note(f, "added")
			}
		}
		// the places the payload's own file names point at, inspected directly; one
		// below box that differs is in the walk's diff already (a regular file that
		// replaced a directory or the other way round shows there as added / deleted
		// files; an empty directory that appeared or disappeared is not a file)
		for _, l := range k.Landings {
			walked := l.Path != ".." && !strings.HasPrefix(l.Path, "../")
			noFile := func(x string) bool { return x == "absent" || x == "directory" }
			if l.ShaBefor == l.ShaAfter || walked || (noFile(l.ShaBefor) && noFile(l.ShaAfter)) {
				continue
			}
			diff = append(diff, fmt.Sprintf("path %s (payload %s name %q) was %s, is %s",
				l.Path, areaName[l.Src], l.Name, l.ShaBefor, l.ShaAfter))
			if l.StaysIn {
				covered++
			} else {
				uncoveredOutside++
			}
		}
		sort.Strings(diff)
		if len(diff) > 0 {
			sig := "disk-not-restored:" + k.Handler
			switch {
			case k.Status == 405:
				sig = "rejected-but-applied:" + k.Handler
			case covered == 0 && uncoveredDefault > 0 && uncoveredOutside == 0:
				sig = "metrics-written-outside-snapshot:SaveMetricsConfig"
			case covered == 0 && uncoveredDefault == 0 && uncoveredOutside > 0:
				sig = "file-name-escapes-snapshot:payload-file-name"
			}
			add(sig, fmt.Sprintf("status %d: the configuration tree is byte-for-byte what it was before the update", k.Status),
				strings.Join(diff, "; "))
		}
		if !sameView(old, last) {
			add("engine-not-restored:"+k.Handler,
				fmt.Sprintf("status %d: probes after the failed update behave as before it %s", k.Status, viewStr(old)),
				"after: "+viewStr(last))
		}
	}
	if k.Status == 200 {
		// (5) an accepted update writes every file of a directory field below the
		// directory of its kind: nothing outside the configuration places is created,
		// changed or removed
		before, after := treeMap(k.TreeBefore), treeMap(k.After)
		var diff []string
		for f, h := range before {
			if f.Area != aOutside {
				continue
			}
			if h2, ok := after[f]; !ok {
				diff = append(diff, "deleted outside/"+f.Rel)
			} else if h2 != h {
				diff = append(diff, "changed outside/"+f.Rel)
			}
		}
		for f := range after {
			if _, ok := before[f]; !ok && f.Area == aOutside {
				diff = append(diff, "added outside/"+f.Rel)
			}
		}
		// the path a name that is not below its directory points at must not have
		// received the bytes of that payload entry (a covered place such as the gateway
		// file may change for reasons of its own: /apply_flows removes it, the
		// gateway_config field rewrites it)
		legit := map[string]bool{}
		for _, l := range k.Landings {
			if l.StaysIn {
				legit[l.Path] = true
			}
		}
		for _, l := range k.Landings {
			if l.StaysIn || legit[l.Path] {
				continue
			}
			for _, e := range k.Payload {
				if e.Src != l.Src || e.Name != l.Name {
					continue
				}
				sameBytesElsewhere := false
				for _, o := range k.Payload {
					if (o.Src == aGateway || o.Src == aMetricsUser) && o.Content == e.Content {
						sameBytesElsewhere = true
					}
				}
				want := sha(k.Contents[e.Content])
				if !sameBytesElsewhere && l.ShaAfter == want && l.ShaBefor != want {
					diff = append(diff, fmt.Sprintf("path %s (payload %s name %q, not below the %s directory) was %s, now holds the bytes of that payload entry (%s)",
						l.Path, areaName[l.Src], l.Name, areaName[l.Src], l.ShaBefor, l.ShaAfter))
				}
			}
		}
		sort.Strings(diff)
		if len(diff) > 0 {
			add("file-written-outside-its-directory:payload-file-name",
				"status 200: every file of the payload is written below the directory of its kind; nothing outside the configuration places changes",
				strings.Join(diff, "; "))
		}
	}
	isOld := func(v []ViewEnt) bool { return sameView(v, old) }
	isNew := func(v []ViewEnt) bool { return sameView(v, described) }
	for _, a := range k.Arrivals {
		if isOld(a.View) {
			continue
		}
		at := a.At
		if i := strings.Index(at, "#"); i >= 0 {
			at = at[:i]
		}
		if isNew(a.View) {
			if k.Status == 200 {
				continue
			}
			// the update was rejected, yet this transaction got the rejected configuration
			sig := "rejected-config-served-outside-switch-window:" + at
			if k.PubsTotal >= 2 && a.Pubs > 0 && a.Pubs < k.PubsTotal {
				sig = sigRejected
			}
			add(sig, fmt.Sprintf("status %d: while and after the update is rejected the running flows keep behaving as before %s",
				k.Status, viewStr(old)),
				fmt.Sprintf("a transaction arriving at %s (after publication %d of %d) was served by the rejected configuration %s",
					a.At, a.Pubs, k.PubsTotal, viewStr(a.View)))
			break
		}
		sig := "mixed-engine-served:" + at
		if len(a.View) == 0 {
			sig = "empty-engine-served:" + at
		}
		add(sig, fmt.Sprintf("a transaction arriving at %s is served entirely by the old %s or entirely by the new %s configuration",
			a.At, viewStr(old), viewStr(described)), "served by "+viewStr(a.View))
		break
	}
	for _, sp := range k.Spans {
		okPhase := func(v []ViewEnt) bool { return isOld(v) || isNew(v) }
		dem := fmt.Sprintf("a transaction in flight during the update (request phase at %s, response phase at %s) is handled entirely by the old %s or entirely by the new %s configuration",
			sp.From, sp.To, viewStr(old), viewStr(described))
		obs := fmt.Sprintf("request phase served by %s, response phase by %s, %d engine publication(s) between the two",
			viewStr(sp.Req), viewStr(sp.Resp), sp.Pubs)
		switch {
		case !okPhase(sp.Req) || !okPhase(sp.Resp):
			add("mixed-engine-served:two-phase-transaction", dem, obs)
		case sameView(sp.Req, sp.Resp):
			continue
		case sp.Pubs > 0:
			add(sigSplit, dem, obs)
		default:
			add("txn-split-without-switch:processResponse", dem, obs)
		}
		break
	}
	return hits
}
