// Case generator of the C08 harness: file contents, disks, payloads.
package main

import (
	"fmt"
	"net/http"
	"os"
	"path/filepath"
	"regexp"
	"sort"
	"strings"

	c "verifharness/common"
)

// ---------------------------------------------------------------- contents

func hostOf(flowRel string) string {
	n := strings.TrimSuffix(filepath.Base(flowRel), ".yaml")
	n = regexp.MustCompile(`[^a-z0-9]`).ReplaceAllString(strings.ToLower(n), "")
	return "h" + n + ".test"
}

// a flow answering every request to its own host with status 400+v; a request
// carrying X-Pass: 1 is let through instead, tagged in its request phase with
// the header x-cfg: v<v>, and its response is given the status 200+v in the
// response phase -- so both phases of a transaction that goes to the upstream
// tell which file content handled them
func flowYAML(rel string, v int) string {
	n := strings.TrimSuffix(filepath.Base(rel), ".yaml")
	return fmt.Sprintf(`name: flow_%[1]s
filter:
  url: %[2]s/*
processors:
  Pass_%[1]s:
    processor: Filter
    parameters:
      - key: header
        value: X-Pass=1
  Gen_%[1]s:
    processor: GenerateResponse
    parameters:
      - key: status
        value: %[3]d
      - key: body
        value: version %[4]d of %[1]s
  ReqTag_%[1]s:
    processor: TransformAPICall
    parameters:
      - key: set
        value:
          "$.request.headers['x-cfg']": "v%[4]d"
  RespTag_%[1]s:
    processor: TransformAPICall
    parameters:
      - key: set
        value:
          "$.response.status_code": %[5]d
flow:
  request:
    - from:
        stream:
          name: globalStream
          at: start
      to:
        processor:
          name: Pass_%[1]s
    - from:
        processor:
          name: Pass_%[1]s
          condition: hit
      to:
        processor:
          name: ReqTag_%[1]s
    - from:
        processor:
          name: ReqTag_%[1]s
      to:
        stream:
          name: globalStream
          at: end
    - from:
        processor:
          name: Pass_%[1]s
          condition: miss
      to:
        processor:
          name: Gen_%[1]s
  response:
    - from:
        processor:
          name: Gen_%[1]s
      to:
        stream:
          name: globalStream
          at: end
    - from:
        stream:
          name: globalStream
          at: start
      to:
        processor:
          name: RespTag_%[1]s
    - from:
        processor:
          name: RespTag_%[1]s
      to:
        stream:
          name: globalStream
          at: end
`, n, hostOf(rel), 400+v, v, 200+v)
}

func badFlowYAML(rel string, kind int) string {
	n := strings.TrimSuffix(filepath.Base(rel), ".yaml")
	if kind == 0 {
		return fmt.Sprintf("name: flow_%s\nfilter: [unclosed\n  url: %s/*\n", n, hostOf(rel))
	}
	return strings.Replace(flowYAML(rel, 9), "processor: GenerateResponse", "processor: NoSuchProcessorAtAll", 1)
}

func quotaYAML(rel string, v int) string {
	n := strings.TrimSuffix(filepath.Base(rel), ".yaml")
	return fmt.Sprintf(`quotas:
  - id: quota_%[1]s
    filter:
      url: q%[1]s.test/*
    strategy:
      fixed_window:
        max: %[2]d
        interval: 30
        interval_unit: second
`, n, 100000+v)
}

func badQuotaYAML(rel string) string {
	return "quotas:\n  - id: [unclosed\n# " + rel + "\n"
}

func pathParamsYAML(rel string, v int) string {
	n := strings.TrimSuffix(filepath.Base(rel), ".yaml")
	return fmt.Sprintf("path_params:\n  - url: p%s.test/v%d/{item}\n", n, v)
}

func gatewayYAML(v int) string {
	return fmt.Sprintf("allowed_domains:\n  - v%d.allowed.test\n", v)
}
func badGatewayYAML() string { return "allowed_domains: [unclosed\n  - x: : y\n" }

func defaultMetrics() string {
	repo := os.Getenv("VERIF_REPO")
	if repo == "" {
		repo = "/repo"
	}
	b, err := os.ReadFile(filepath.Join(repo, "proxy", "metrics.yaml"))
	if err != nil {
		panic(err)
	}
	return string(b)
}
func metricsYAML(v int) string {
	return defaultMetrics() + fmt.Sprintf("\n# user metrics version %d\n", v)
}
func badMetricsYAML() string { return "general_metrics: [unclosed\n  label_value: : :\n" }

var (
	statusRe  = regexp.MustCompile(`key: status\s+value: (\d+)`)
	reqTagRe  = regexp.MustCompile(`x-cfg'\]": "(v\d+)"`)
	respTagRe = regexp.MustCompile(`status_code": (\d+)`)
)

// register interns a content and, for flow files, records which verdict it produces.
func (s *sut) register(area int, rel, content string) int {
	t := in.content(content)
	if area == aFlows {
		if m := statusRe.FindStringSubmatch(content); m != nil {
			s.verdict[rel+"#"+m[1]] = t
		}
		if m := reqTagRe.FindStringSubmatch(content); m != nil {
			s.verdict[rel+"#req#"+m[1]] = t
		}
		if m := respTagRe.FindStringSubmatch(content); m != nil {
			s.verdict[rel+"#resp#"+m[1]] = t
		}
	}
	return t
}

// ---------------------------------------------------------------- generator

type gen struct {
	r *c.Rng
}

func newGen(r *c.Rng) *gen { return &gen{r: r} }

func (g *gen) ent(s *sut, area int, rel, content string) Ent {
	return Ent{area, rel, s.register(area, rel, content), sha(content)}
}

func flowRel(n int) string  { return fmt.Sprintf("f%d.yaml", n) }
func quotaRel(n int) string { return fmt.Sprintf("q%d.yaml", n) }
func ppRel(n int) string    { return fmt.Sprintf("p%d.yaml", n) }

// baseDisk: a few canonical starting states (always valid, always with the
// built-in default metrics file).
func (g *gen) baseDisk(s *sut, which int) []Ent {
	d := []Ent{g.ent(s, aMetricsDefault, "", defaultMetrics())}
	switch which {
	case 0: // nothing configured
	case 1:
		d = append(d, g.ent(s, aFlows, flowRel(1), flowYAML(flowRel(1), 1)),
			g.ent(s, aFlows, flowRel(2), flowYAML(flowRel(2), 1)),
			g.ent(s, aQuotas, quotaRel(1), quotaYAML(quotaRel(1), 1)),
			g.ent(s, aPathParams, ppRel(1), pathParamsYAML(ppRel(1), 1)),
			g.ent(s, aGateway, "", gatewayYAML(1)),
			g.ent(s, aMetricsUser, "", metricsYAML(1)))
	case 2: // no gateway file, no user metrics file
		d = append(d, g.ent(s, aFlows, flowRel(1), flowYAML(flowRel(1), 1)),
			g.ent(s, aFlows, flowRel(2), flowYAML(flowRel(2), 2)),
			g.ent(s, aFlows, flowRel(3), flowYAML(flowRel(3), 1)),
			g.ent(s, aQuotas, quotaRel(1), quotaYAML(quotaRel(1), 1)))
	default:
		for n := 1; n <= 4; n++ {
			if g.r.Chance(3, 5) {
				d = append(d, g.ent(s, aFlows, flowRel(n), flowYAML(flowRel(n), g.r.Range(1, 3))))
			}
		}
		for n := 1; n <= 2; n++ {
			if g.r.Chance(1, 2) {
				d = append(d, g.ent(s, aQuotas, quotaRel(n), quotaYAML(quotaRel(n), g.r.Range(1, 3))))
			}
		}
		if g.r.Chance(1, 2) {
			d = append(d, g.ent(s, aPathParams, ppRel(1), pathParamsYAML(ppRel(1), g.r.Range(1, 3))))
		}
		if g.r.Chance(1, 2) {
			d = append(d, g.ent(s, aGateway, "", gatewayYAML(g.r.Range(1, 3))))
		}
		if g.r.Chance(1, 2) {
			d = append(d, g.ent(s, aMetricsUser, "", metricsYAML(g.r.Range(1, 3))))
		}
	}
	sortEnts(d)
	return d
}

func (g *gen) dirEntry(s *sut, src int, name, content string, decodable bool) PEntry {
	ta, tr := s.classify(filepath.Join(s.dirOf(src), name))
	return PEntry{Src: src, Name: name, TArea: ta, TRel: tr, Content: s.register(ta, tr, content), Decodable: decodable}
}

func (g *gen) flowEntry(s *sut, n, v int, decodable bool) PEntry {
	return g.dirEntry(s, aFlows, flowRel(n), flowYAML(flowRel(n), v), decodable)
}
func (g *gen) badFlowEntry(s *sut, n, kind int) PEntry {
	return g.dirEntry(s, aFlows, flowRel(n), badFlowYAML(flowRel(n), kind), true)
}
func (g *gen) quotaEntry(s *sut, n, v int) PEntry {
	return g.dirEntry(s, aQuotas, quotaRel(n), quotaYAML(quotaRel(n), v), true)
}
func (g *gen) ppEntry(s *sut, n, v int) PEntry {
	return g.dirEntry(s, aPathParams, ppRel(n), pathParamsYAML(ppRel(n), v), true)
}
func (g *gen) gatewayEntry(s *sut, content string) PEntry {
	return PEntry{Src: aGateway, TArea: aGateway, Content: s.register(aGateway, "", content), Decodable: true}
}

// the metrics entry's target is where the implementation is *supposed* to put
// it (the user metrics file); the model decides, the harness only names the field
func (g *gen) metricsEntry(s *sut, content string) PEntry {
	return PEntry{Src: aMetricsUser, TArea: aMetricsUser, Content: s.register(aMetricsUser, "", content), Decodable: true}
}

// file names that leave their directory for a sibling sharing its name as a string prefix
var siblingName = map[int]string{aFlows: "../flows-disabled/x.yaml", aQuotas: "../quotas-old/q.yaml", aPathParams: "../path_params.bak/p.yaml"}

// a content that is fine for the field, should an implementation keep the file
func siblingContent(src, v int) string {
	switch src {
	case aFlows:
		return flowYAML("x.yaml", v)
	case aQuotas:
		return quotaYAML("q.yaml", v)
	}
	return pathParamsYAML("p.yaml", v)
}

// where a name of a directory field lands, relative to the configuration root (area outside)
func (s *sut) siblingRel(src int, name string) string {
	a, r := s.classify(filepath.Join(s.dirOf(src), name))
	if a != aOutside {
		panic("sibling name " + name + " does not leave its directory")
	}
	return r
}

type triple struct {
	label   string
	handler string
	method  string
	bodyOK  bool
	before  []Ent
	payload []PEntry
}

func (g *gen) fixed(s *sut) []triple {
	var out []triple
	add := func(label string, base int, p ...PEntry) {
		for _, h := range []string{"configuration", "apply_flows"} {
			out = append(out, triple{label, h, http.MethodPut, true, g.baseDisk(s, base), p})
		}
	}
	add("change-one-flow", 1, g.flowEntry(s, 1, 2, true))
	add("add-one-flow", 1, g.flowEntry(s, 3, 1, true))
	add("add-change-resend", 1, g.flowEntry(s, 1, 1, true), g.flowEntry(s, 2, 2, true), g.flowEntry(s, 3, 1, true))
	add("all-places", 1, g.flowEntry(s, 1, 3, true), g.quotaEntry(s, 1, 2), g.quotaEntry(s, 2, 1), g.ppEntry(s, 1, 2),
		g.gatewayEntry(s, gatewayYAML(2)), g.metricsEntry(s, metricsYAML(2)))
	add("first-config", 0, g.flowEntry(s, 1, 1, true), g.quotaEntry(s, 1, 1), g.gatewayEntry(s, gatewayYAML(1)))
	add("metrics-only-no-user-file", 2, g.metricsEntry(s, metricsYAML(2)))
	add("empty-payload", 1)
	add("bad-flow-yaml", 1, g.flowEntry(s, 1, 2, true), g.badFlowEntry(s, 3, 0))
	add("bad-flow-processor", 2, g.badFlowEntry(s, 2, 1), g.flowEntry(s, 4, 1, true), g.quotaEntry(s, 1, 2))
	add("bad-flow-and-metrics-no-user-file", 2, g.metricsEntry(s, metricsYAML(3)), g.badFlowEntry(s, 1, 0))
	add("bad-quota", 1, g.flowEntry(s, 2, 3, true), g.dirEntry(s, aQuotas, quotaRel(2), badQuotaYAML(quotaRel(2)), true))
	add("bad-gateway", 1, g.flowEntry(s, 1, 2, true), g.gatewayEntry(s, badGatewayYAML()))
	add("bad-metrics", 1, g.flowEntry(s, 1, 2, true), g.flowEntry(s, 3, 2, true), g.metricsEntry(s, badMetricsYAML()))
	add("bad-metrics-no-user-file", 2, g.flowEntry(s, 1, 3, true), g.metricsEntry(s, badMetricsYAML()))
	add("undecodable-base64", 1, g.flowEntry(s, 1, 2, true), g.flowEntry(s, 3, 1, false), g.quotaEntry(s, 1, 2))
	add("name-into-sibling-directory", 1, g.dirEntry(s, aFlows, "../quotas/q2.yaml", quotaYAML(quotaRel(2), 1), true),
		g.badFlowEntry(s, 1, 0))
	add("name-escaping-the-directories", 1, g.dirEntry(s, aFlows, "../../outside/evil.yaml", "evil: true\n", true),
		g.badFlowEntry(s, 1, 0))
	add("name-escaping-ok", 1, g.dirEntry(s, aQuotas, "../../outside/other.yaml", "other: 1\n", true), g.flowEntry(s, 2, 2, true))
	add("name-escaping-one-level", 1, g.flowEntry(s, 1, 2, true), g.flowEntry(s, 3, 1, true),
		g.dirEntry(s, aQuotas, "../x.yaml", quotaYAML("x.yaml", 1), true), g.quotaEntry(s, 1, 2))
	add("name-escaping-through-a-sub-directory", 1, g.flowEntry(s, 2, 3, true),
		g.dirEntry(s, aPathParams, "a/../../b.yaml", pathParamsYAML("b.yaml", 1), true), g.ppEntry(s, 1, 2))
	add("name-escaping-three-levels", 1, g.dirEntry(s, aFlows, "../../../up3.yaml", "up: 3\n", true), g.flowEntry(s, 1, 3, true),
		g.flowEntry(s, 2, 3, true), g.flowEntry(s, 3, 3, true))
	add("name-onto-the-gateway-file", 1, g.dirEntry(s, aFlows, "../gateway_config.yaml", gatewayYAML(3), true),
		g.flowEntry(s, 2, 2, true), g.quotaEntry(s, 2, 1))
	add("name-onto-the-gateway-file-bad-quota", 1, g.dirEntry(s, aFlows, "../gateway_config.yaml", gatewayYAML(3), true),
		g.dirEntry(s, aQuotas, quotaRel(2), badQuotaYAML(quotaRel(2)), true))
	add("name-is-the-directory", 1, g.flowEntry(s, 1, 2, true), g.dirEntry(s, aQuotas, ".", quotaYAML("dot.yaml", 1), true))
	add("name-is-the-empty-directory", 2, g.flowEntry(s, 1, 2, true), g.dirEntry(s, aPathParams, "sub/..", pathParamsYAML("dot.yaml", 1), true))
	withOutside := func() []Ent {
		d := append(g.baseDisk(s, 1), g.ent(s, aOutside, "outside/evil.yaml", "precious: true\n"),
			g.ent(s, aOutside, "cfg/x.yaml", "precious: 2\n"))
		sortEnts(d)
		return d
	}
	for _, h := range []string{"configuration", "apply_flows"} {
		out = append(out, triple{"name-onto-an-existing-outside-file", h, http.MethodPut, true, withOutside(), []PEntry{
			g.flowEntry(s, 1, 2, true), g.flowEntry(s, 2, 2, true),
			g.dirEntry(s, aFlows, "../../outside/evil.yaml", "evil: true\n", true)}})
		out = append(out, triple{"name-onto-an-existing-outside-file-bad-flow", h, http.MethodPut, true, withOutside(), []PEntry{
			g.badFlowEntry(s, 2, 1), g.dirEntry(s, aQuotas, "../x.yaml", "evil: 2\n", true),
			g.dirEntry(s, aFlows, "../../outside/evil.yaml", "evil: true\n", true)}})
	}
	// odd names that stay inside their directory: accepted, exactly as before the name check
	oddInside := func(bad bool) []PEntry {
		p := []PEntry{
			g.dirEntry(s, aFlows, "./"+flowRel(3), flowYAML(flowRel(3), 2), true),
			g.dirEntry(s, aFlows, "a/../"+flowRel(4), flowYAML(flowRel(4), 1), true),
			g.dirEntry(s, aFlows, "/"+flowRel(1), flowYAML(flowRel(1), 3), true),
			g.dirEntry(s, aFlows, "../flows/"+flowRel(2), flowYAML(flowRel(2), 3), true),
			g.dirEntry(s, aQuotas, "sub/q5.yaml", quotaYAML("q5.yaml", 1), true),
			g.dirEntry(s, aQuotas, "./q6.yaml", quotaYAML("q6.yaml", 1), true),
			g.dirEntry(s, aQuotas, "/abs/q8.yaml", quotaYAML("q8.yaml", 1), true),
			g.dirEntry(s, aQuotas, "..q9.yaml", quotaYAML("q9.yaml", 1), true),
			g.dirEntry(s, aPathParams, "deep/er/p2.yaml", pathParamsYAML("p2.yaml", 1), true),
			g.dirEntry(s, aPathParams, "a/b/../../p1.yaml", pathParamsYAML("p1.yaml", 3), true),
		}
		if bad {
			p = append(p[2:7], g.dirEntry(s, aQuotas, "a/../"+quotaRel(2), badQuotaYAML(quotaRel(2)), true))
		}
		return p
	}
	add("odd-names-inside", 1, oddInside(false)...)
	add("odd-names-inside-bad-quota", 1, oddInside(true)...)
	withSub := func() []Ent {
		d := append(g.baseDisk(s, 1), g.ent(s, aQuotas, "sub/q3.yaml", quotaYAML("q3.yaml", 1)))
		sortEnts(d)
		return d
	}
	for _, h := range []string{"configuration", "apply_flows"} {
		out = append(out, triple{"sub-directories", h, http.MethodPut, true, withSub(), []PEntry{
			g.dirEntry(s, aQuotas, "sub/q3.yaml", quotaYAML("q3.yaml", 2), true),
			g.dirEntry(s, aQuotas, "newsub/q4.yaml", quotaYAML("q4.yaml", 1), true),
			g.flowEntry(s, 2, 2, true)}})
		out = append(out, triple{"sub-directories-bad-flow", h, http.MethodPut, true, withSub(), []PEntry{
			g.dirEntry(s, aQuotas, "sub/q3.yaml", quotaYAML("q3.yaml", 2), true),
			g.dirEntry(s, aQuotas, "newsub/q4.yaml", quotaYAML("q4.yaml", 1), true),
			g.badFlowEntry(s, 2, 1)}})
	}
	// a payload name that is a directory of the disk (quotas/sub holds q3.yaml), and names
	// of one payload that are prefixes of each other
	for _, h := range []string{"configuration", "apply_flows"} {
		out = append(out, triple{"name-is-an-existing-sub-directory", h, http.MethodPut, true, withSub(), []PEntry{
			g.dirEntry(s, aQuotas, "sub", quotaYAML("sub.yaml", 1), true), g.flowEntry(s, 2, 2, true)}})
		out = append(out, triple{"name-is-an-existing-sub-directory-bad-flow", h, http.MethodPut, true, withSub(), []PEntry{
			g.dirEntry(s, aQuotas, "sub", quotaYAML("sub.yaml", 1), true), g.badFlowEntry(s, 2, 1)}})
		out = append(out, triple{"name-below-an-existing-file", h, http.MethodPut, true, g.baseDisk(s, 1), []PEntry{
			g.dirEntry(s, aQuotas, "q1.yaml/x.yaml", quotaYAML("x.yaml", 1), true), g.flowEntry(s, 2, 2, true)}})
		out = append(out, triple{"name-two-levels-below-an-existing-file", h, http.MethodPut, true, g.baseDisk(s, 1), []PEntry{
			g.dirEntry(s, aQuotas, "q1.yaml/deep/x.yaml", quotaYAML("x.yaml", 1), true), g.badFlowEntry(s, 2, 1)}})
		out = append(out, triple{"names-prefix-of-each-other", h, http.MethodPut, true, g.baseDisk(s, 1), []PEntry{
			g.dirEntry(s, aPathParams, "a", pathParamsYAML("a.yaml", 1), true),
			g.dirEntry(s, aPathParams, "a/b.yaml", pathParamsYAML("b.yaml", 1), true)}})
	}
	// names that climb out of their directory into a SIBLING whose name starts with the
	// directory's name as a string (cfg/flows-disabled next to cfg/flows, cfg/quotas-old,
	// cfg/path_params.bak, the plain file cfg/flows.bak): not below the directory, although
	// the joined path has the directory's path as a string prefix.  The sibling exists
	// (and holds a file the name points at) or not; the update is refused at a later step
	// (validation, metrics reload, an injected fault) or is otherwise fine
	withSiblings := func(srcs ...int) []Ent {
		d := g.baseDisk(s, 1)
		for _, src := range srcs {
			d = append(d, g.ent(s, aOutside, s.siblingRel(src, siblingName[src]), fmt.Sprintf("parked: %s\n", areaName[src])))
		}
		sortEnts(d)
		return d
	}
	sib := func(src, v int) PEntry { return g.dirEntry(s, src, siblingName[src], siblingContent(src, v), true) }
	for _, h := range []string{"configuration", "apply_flows"} {
		out = append(out, triple{"sibling-prefix-name-existing-dir-bad-flow", h, http.MethodPut, true, withSiblings(aFlows), []PEntry{
			sib(aFlows, 2), g.flowEntry(s, 1, 2, true), g.badFlowEntry(s, 3, 0)}})
		out = append(out, triple{"sibling-prefix-name-new-dir-bad-quota", h, http.MethodPut, true, g.baseDisk(s, 1), []PEntry{
			sib(aQuotas, 1), g.flowEntry(s, 2, 3, true), g.dirEntry(s, aQuotas, quotaRel(2), badQuotaYAML(quotaRel(2)), true)}})
		out = append(out, triple{"sibling-prefix-name-existing-dir-bad-metrics", h, http.MethodPut, true, withSiblings(aPathParams), []PEntry{
			sib(aPathParams, 2), g.flowEntry(s, 1, 2, true), g.metricsEntry(s, badMetricsYAML())}})
		out = append(out, triple{"sibling-prefix-name-new-dir-bad-flow", h, http.MethodPut, true, g.baseDisk(s, 2), []PEntry{
			sib(aFlows, 1), g.badFlowEntry(s, 2, 1)}})
		out = append(out, triple{"sibling-prefix-names-existing-dirs-otherwise-fine", h, http.MethodPut, true, withSiblings(aFlows, aQuotas), []PEntry{
			sib(aFlows, 3), sib(aQuotas, 2), g.flowEntry(s, 2, 2, true)}})
		out = append(out, triple{"sibling-prefix-name-new-dir-otherwise-fine", h, http.MethodPut, true, g.baseDisk(s, 1), []PEntry{
			sib(aPathParams, 1), g.ppEntry(s, 1, 2)}})
		withFile := append(g.baseDisk(s, 1), g.ent(s, aOutside, s.siblingRel(aFlows, "../flows.bak"), "parked: a plain file\n"))
		sortEnts(withFile)
		out = append(out, triple{"sibling-prefix-plain-file-name-bad-flow", h, http.MethodPut, true, withFile, []PEntry{
			g.dirEntry(s, aFlows, "../flows.bak", flowYAML("bak.yaml", 1), true), g.flowEntry(s, 1, 3, true), g.badFlowEntry(s, 2, 0)}})
	}
	for _, h := range []string{"configuration", "apply_flows"} {
		out = append(out, triple{"not-json", h, http.MethodPut, false, g.baseDisk(s, 1), nil})
		out = append(out, triple{"wrong-method", h, http.MethodPost, true, g.baseDisk(s, 1),
			[]PEntry{g.flowEntry(s, 1, 2, true), g.flowEntry(s, 3, 1, true)}})
	}
	return out
}

func (g *gen) random(s *sut) triple {
	t := triple{label: "random", handler: c.Pick(g.r, []string{"configuration", "apply_flows"}),
		method: http.MethodPut, bodyOK: true, before: g.baseDisk(s, 3)}
	bad := g.r.Chance(2, 5)
	for n := 1; n <= 4; n++ {
		if g.r.Chance(2, 5) {
			t.payload = append(t.payload, g.flowEntry(s, n, g.r.Range(1, 3), true))
		}
	}
	for n := 1; n <= 2; n++ {
		if g.r.Chance(1, 3) {
			t.payload = append(t.payload, g.quotaEntry(s, n, g.r.Range(1, 3)))
		}
	}
	if g.r.Chance(1, 3) {
		t.payload = append(t.payload, g.ppEntry(s, 1, g.r.Range(1, 3)))
	}
	if g.r.Chance(1, 3) {
		t.payload = append(t.payload, g.gatewayEntry(s, gatewayYAML(g.r.Range(1, 3))))
	}
	if g.r.Chance(1, 3) {
		t.payload = append(t.payload, g.metricsEntry(s, metricsYAML(g.r.Range(1, 3))))
	}
	if g.r.Chance(1, 8) {
		t.payload = append(t.payload, g.dirEntry(s, aFlows, "../quotas/q2.yaml", quotaYAML(quotaRel(2), g.r.Range(1, 3)), true))
		t.label = "random-sibling-name"
	}
	if g.r.Chance(1, 6) {
		src := c.Pick(g.r, []int{aFlows, aQuotas, aPathParams})
		name := c.Pick(g.r, []string{"../x.yaml", "../../outside/x.yaml", "a/../../b.yaml", "../../../up3.yaml",
			"../gateway_config.yaml", "../metrics.yaml", ".", "../quotas/q1.yaml", "../flows/f9/../../flows/../f2.yaml"})
		// a content that is fine for the field, should the name resolve into its own directory after all
		content := map[int]string{aFlows: flowYAML("f8.yaml", g.r.Range(1, 3)), aQuotas: quotaYAML("x8.yaml", g.r.Range(1, 3)),
			aPathParams: pathParamsYAML("x8.yaml", g.r.Range(1, 3))}[src]
		t.payload = append(t.payload, g.dirEntry(s, src, name, content, true))
		t.label = "random-escaping-name"
	}
	if g.r.Chance(1, 5) {
		src := c.Pick(g.r, []int{aFlows, aQuotas, aPathParams})
		if g.r.Chance(1, 2) { // the sibling exists and holds the file the name points at
			t.before = append(t.before, g.ent(s, aOutside, s.siblingRel(src, siblingName[src]), fmt.Sprintf("parked: %s\n", areaName[src])))
			sortEnts(t.before)
		}
		t.payload = append(t.payload, g.dirEntry(s, src, siblingName[src], siblingContent(src, g.r.Range(1, 3)), true))
		t.label = "random-sibling-prefix-name"
	}
	if g.r.Chance(1, 6) {
		v := g.r.Range(1, 3)
		t.payload = append(t.payload, c.Pick(g.r, []PEntry{
			g.dirEntry(s, aFlows, "./"+flowRel(2), flowYAML(flowRel(2), v), true),
			g.dirEntry(s, aFlows, "a/../"+flowRel(3), flowYAML(flowRel(3), v), true),
			g.dirEntry(s, aFlows, "/"+flowRel(4), flowYAML(flowRel(4), v), true),
			g.dirEntry(s, aQuotas, "sub/q5.yaml", quotaYAML("q5.yaml", v), true),
			g.dirEntry(s, aQuotas, "/abs/"+quotaRel(1), quotaYAML("q8.yaml", v), true),
			g.dirEntry(s, aQuotas, "..q9.yaml", quotaYAML("q9.yaml", v), true),
			g.dirEntry(s, aPathParams, "a/b/../../"+ppRel(1), pathParamsYAML(ppRel(1), v), true),
		}))
		t.label += "-odd-inside-name"
	}
	if g.r.Chance(1, 25) {
		t.method = http.MethodPost
		t.label = "random-wrong-method"
	}
	if bad {
		switch g.r.Intn(5) {
		case 0:
			t.payload = append(t.payload, g.badFlowEntry(s, g.r.Range(1, 4), g.r.Intn(2)))
			t.label += "-bad-flow"
		case 1:
			t.payload = append(t.payload, g.dirEntry(s, aQuotas, quotaRel(2), badQuotaYAML(quotaRel(2)), true))
			t.label += "-bad-quota"
		case 2:
			t.payload = append(t.payload, g.gatewayEntry(s, badGatewayYAML()))
			t.label += "-bad-gateway"
		case 3:
			t.payload = append(t.payload, g.metricsEntry(s, badMetricsYAML()))
			t.label += "-bad-metrics"
		case 4:
			if len(t.payload) > 0 {
				t.payload[g.r.Intn(len(t.payload))].Decodable = false
				t.label += "-undecodable"
			}
		}
	}
	// one entry per name (a JSON object has one value per key) and per target
	// (two names of one field resolving to one file: which content wins depends
	// on Go's map order and cannot be read off the hook calls)
	seen := map[string]bool{}
	var p []PEntry
	for i := len(t.payload) - 1; i >= 0; i-- {
		e := t.payload[i]
		key, tkey := fmt.Sprintf("n%d/%s", e.Src, e.Name), fmt.Sprintf("t%d/%d/%s", e.Src, e.TArea, e.TRel)
		if !seen[key] && !seen[tkey] {
			seen[key], seen[tkey] = true, true
			p = append([]PEntry{e}, p...)
		}
	}
	t.payload = p
	return t
}

func (s *sut) caseOf(t triple, fault int) *Case {
	k := &Case{Handler: t.handler, Method: t.method, BodyOK: t.bodyOK, Before: t.before,
		Payload: append([]PEntry(nil), t.payload...), Fault: fault, Label: t.label}
	s.fillTables(k)
	return k
}

// fillTables derives the validity tables and the contents table of a case
// from the contents themselves (what the generator wrote into them).
func (s *sut) fillTables(k *Case) {
	k.BadContents, k.BadMetrics = nil, nil
	k.Contents = map[int]string{}
	use := func(t int) { k.Contents[t] = in.bytesOf[t] }
	for _, e := range k.Before {
		use(e.Content)
	}
	badSeen := map[int]bool{}
	for _, e := range k.Payload {
		use(e.Content)
		b := in.bytesOf[e.Content]
		if strings.Contains(b, "[unclosed") || strings.Contains(b, "NoSuchProcessorAtAll") {
			if badSeen[e.Content] {
				continue
			}
			badSeen[e.Content] = true
			if e.Src == aMetricsUser {
				k.BadMetrics = append(k.BadMetrics, e.Content)
			} else {
				k.BadContents = append(k.BadContents, e.Content)
			}
		}
	}
	sort.Ints(k.BadContents)
	sort.Ints(k.BadMetrics)
}

// rebuild maps a replayed case onto this run's interning tables.
func (g *gen) rebuild(s *sut, k *Case) {
	m := map[int]int{}
	for t, b := range k.Contents {
		m[t] = in.content(b)
	}
	for i := range k.Before {
		e := &k.Before[i]
		e.Content = s.register(e.Area, e.Rel, k.Contents[e.Content])
	}
	for i := range k.Payload {
		e := &k.Payload[i]
		e.Content = s.register(e.TArea, e.TRel, k.Contents[e.Content])
	}
	s.fillTables(k)
}

func generate(o *c.Out, s *sut) {
	g := newGen(o.Rng.Fork(8))
	triples := g.fixed(s)
	for i := 0; i < o.Scale(12, 500, 150); i++ {
		triples = append(triples, g.random(s))
	}
	for _, t := range triples {
		k := s.caseOf(t, -1)
		s.runCase(o, k)
		if !s.hooksOn {
			continue
		}
		n := len(k.HookSeq)
		// directories are not part of the modelled disk: when a payload name is a
		// directory that the clean-up has just emptied, storeFileOnDisk's os.Remove
		// drops it; a fault injected into that very removal leaves the empty
		// directory in place and os.Create fails on it, which the model (files
		// only) cannot tell -- that one fault point is not exercised
		dirTarget := map[PathRef]bool{}
		for _, l := range k.Landings {
			if l.ShaBefor != "directory" {
				continue
			}
			for _, e := range k.Payload {
				if e.Src == l.Src && e.Name == l.Name {
					dirTarget[PathRef{e.TArea, e.TRel}] = true
				}
			}
		}
		for f := 0; f < n; f++ {
			// hook calls a failing run makes beyond those of the fault-free run belong
			// to its roll-back; the single fault is spent by then, nothing to add
			if h := k.HookSeq[f]; h.Point == "fs.remove" && dirTarget[PathRef{h.Area, h.Rel}] {
				o.Count("fault_skipped=removal-of-an-emptied-directory")
				continue
			}
			s.runCase(o, s.caseOf(t, f))
		}
	}
}
