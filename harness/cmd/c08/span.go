// Two-phase probe transactions of the C08 harness (clause "transactions in
// flight during the switch are handled entirely by one configuration").
//
// A probe transaction that is let through to the upstream has two phases, like
// every proxied transaction: HAProxy sends lunar-on-request when the request
// arrives and lunar-on-response, with the same transaction id, when the
// upstream has answered.  The harness sends the two messages of one
// transaction at two different arrival points of the update (before / at a hook
// call / at the engine.published yield / after) and reads off each phase which
// flow file content handled it (request phase: the header x-cfg the flow sets;
// response phase: the status the flow gives the response).
package main

import (
	"fmt"
	"strings"

	"lunar/engine/actions"

	"github.com/negasus/haproxy-spoe-go/message"
	"github.com/negasus/haproxy-spoe-go/payload/kv"
	"github.com/negasus/haproxy-spoe-go/request"
)

// Span: one batch of probe transactions (one per flow file) whose request
// phase ran at arrival point From and whose response phase ran at To.
type Span struct {
	From string    `json:"request_phase_at"`
	To   string    `json:"response_phase_at"`
	Pubs int       `json:"engine_publications_between"` // engine.published events between the two phases
	Req  []ViewEnt `json:"request_phase_view"`
	Resp []ViewEnt `json:"response_phase_view"`
}

type openSpan struct {
	from  string
	pubs  int // publications so far when the request phase ran
	ids   []string
	req   []ViewEnt
	endAt int // arrival index at which the response phase is due; -1: at the last arrival
}

// how many transactions are begun at "before" to be ended one after each
// publication of an engine and at "after"
const spanPool = 4

func (s *sut) begin(at string, endAt int) *openSpan {
	r := s.run
	ids, req := s.requestPhase(r.names)
	return &openSpan{from: at, pubs: r.pubs, ids: ids, req: req, endAt: endAt}
}

func (s *sut) end(o *openSpan, at string) {
	r := s.run
	sp := Span{From: o.from, To: at, Pubs: r.pubs - o.pubs, Req: o.req, Resp: s.responsePhase(r.names, o.ids)}
	r.k.SpanCount++
	for _, x := range r.k.Spans {
		if (x.Pubs > 0) == (sp.Pubs > 0) && sameView(x.Req, sp.Req) && sameView(x.Resp, sp.Resp) {
			return
		}
	}
	r.k.Spans = append(r.k.Spans, sp)
}

// spanStep runs the two-phase probes due at one arrival point.  Response
// phases: of the transaction begun at the previous point; of one transaction
// begun at "before" when an engine has been published since the last one was
// ended; at the last point, of every transaction still open (one begun under
// every engine that was ever published, and one begun at "before").  Request
// phases: of the transaction to be ended at the next point; of one to be ended
// at the last point when an engine has been published since the last such
// transaction was begun.  So the two phases straddle every hook call, every
// publication, every sequence of publications from the start and every
// sequence of publications up to the end.
func (s *sut) spanStep(at string, last bool) {
	r := s.run
	var keep []*openSpan
	for _, o := range r.open {
		if o.endAt == r.arrIdx || last {
			s.end(o, at)
		} else {
			keep = append(keep, o)
		}
	}
	r.open = keep
	if r.arrIdx > 0 && len(r.pool) > 0 && (last || r.pubs != r.poolAt) {
		s.end(r.pool[0], at)
		r.pool, r.poolAt = r.pool[1:], r.pubs
	}
	if last {
		return
	}
	r.open = append(r.open, s.begin(at, r.arrIdx+1))
	if r.longAt != r.pubs {
		r.open = append(r.open, s.begin(at, -1))
		r.longAt = r.pubs
	}
	if r.arrIdx == 0 {
		for i := 0; i < spanPool; i++ {
			r.pool = append(r.pool, s.begin(at, -1))
		}
	}
}

func actionValue(req *request.Request, name string) (any, bool) {
	for _, a := range req.Actions {
		if a.Name == name {
			return a.Value, true
		}
	}
	return nil, false
}

// requestPhase sends lunar-on-request of one new pass-through transaction per
// flow file and returns their ids and which content tagged each request.
func (s *sut) requestPhase(names []string) ([]string, []ViewEnt) {
	ids := make([]string, len(names))
	view := []ViewEnt{}
	for i, n := range names {
		host := hostOf(n)
		s.txn++
		id := fmt.Sprintf("span-%d", s.txn)
		ids[i] = id
		kvs := kv.NewKV()
		kvs.Add("id", id)
		kvs.Add("sequence_id", id)
		kvs.Add("method", "GET")
		kvs.Add("scheme", "https")
		kvs.Add("url", host+"/x")
		kvs.Add("path", "/x")
		kvs.Add("query", "")
		kvs.Add("headers", "X-Pass: 1\r\nHost: "+host+"\r\n")
		kvs.Add("body", []byte(""))
		req := request.Request{Messages: &message.Messages{{Name: "lunar-on-request", KV: kvs}}}
		s.spoe(&req)
		if _, early := actionValue(&req, actions.StatusCodeActionName); early {
			view = append(view, ViewEnt{n, -1}) // answered early: not a pass-through
			continue
		}
		h, ok := actionValue(&req, actions.RequestHeadersActionName)
		if !ok {
			continue // no flow of this file is loaded
		}
		tag := ""
		for _, line := range strings.Split(fmt.Sprint(h), "\n") {
			if k, v, ok := strings.Cut(line, ":"); ok && strings.EqualFold(strings.TrimSpace(k), "x-cfg") {
				tag = strings.TrimSpace(v)
			}
		}
		tok, ok := s.verdict[n+"#req#"+tag]
		if !ok {
			tok = -1
		}
		view = append(view, ViewEnt{n, tok})
	}
	return ids, view
}

// responsePhase sends lunar-on-response of the transactions begun by requestPhase.
func (s *sut) responsePhase(names, ids []string) []ViewEnt {
	view := []ViewEnt{}
	for i, n := range names {
		host := hostOf(n)
		kvs := kv.NewKV()
		kvs.Add("id", ids[i])
		kvs.Add("sequence_id", ids[i])
		kvs.Add("method", "GET")
		kvs.Add("url", host+"/x")
		kvs.Add("status", int64(200))
		kvs.Add("headers", "Content-Type: text/plain\r\n")
		kvs.Add("body", []byte(""))
		req := request.Request{Messages: &message.Messages{{Name: "lunar-on-response", KV: kvs}}}
		s.spoe(&req)
		v, ok := actionValue(&req, actions.StatusCodeActionName)
		if !ok {
			continue
		}
		status := 0
		switch x := v.(type) {
		case int:
			status = x
		case int64:
			status = int(x)
		}
		tok, ok := s.verdict[fmt.Sprintf("%s#resp#%d", n, status)]
		if !ok {
			tok = -1
		}
		view = append(view, ViewEnt{n, tok})
	}
	return view
}
