// Process set-up of the C08 harness: the engine's config package reads the
// HAProxy admin / health-check ports in package initialisers, so the harness
// re-executes itself once with the whole environment in place, then (in the
// child) starts the stub HAProxy endpoints on those ports.
package main

import (
	"fmt"
	"net"
	"net/http"
	"os"
	"path/filepath"
	"strings"
	"sync/atomic"
	"syscall"
	"time"
)

const childEnv = "VERIF_C08_CHILD"

type layout struct {
	box            string // everything the monitor inspects: the configuration places and their surroundings
	root           string // box/in: two levels below box, so that ../../.. from a directory still lands in box
	flows          string
	quotas         string
	pathParams     string
	gateway        string
	metricsUser    string
	metricsDefault string
	outside        string // where traversal names of the generator land
	gen            string // generated path-param file (derived artefact, not part of the tree)
}

func mkLayout(cwd string) layout {
	box := filepath.Join(cwd, "box")
	root := filepath.Join(box, "in")
	return layout{
		box:            box,
		root:           root,
		flows:          filepath.Join(root, "cfg", "flows"),
		quotas:         filepath.Join(root, "cfg", "quotas"),
		pathParams:     filepath.Join(root, "cfg", "path_params"),
		gateway:        filepath.Join(root, "cfg", "gateway_config.yaml"),
		metricsUser:    filepath.Join(root, "cfg", "metrics.yaml"),
		metricsDefault: filepath.Join(root, "internal", "metrics.yaml"),
		outside:        filepath.Join(root, "outside"),
		gen:            filepath.Join(cwd, "gen", "policies.yaml"),
	}
}

func freePort() string {
	l, err := net.Listen("tcp", "127.0.0.1:0")
	if err != nil {
		panic(err)
	}
	defer l.Close()
	return fmt.Sprint(l.Addr().(*net.TCPAddr).Port)
}

// reexecWithEnv never returns in the parent.
func reexecWithEnv() {
	cwd, err := os.Getwd()
	if err != nil {
		panic(err)
	}
	L := mkLayout(cwd)
	repo := os.Getenv("VERIF_REPO")
	if repo == "" {
		repo = "/repo"
	}
	engine := filepath.Join(repo, "proxy", "src", "services", "lunar-engine")
	set := map[string]string{
		childEnv:                                "1",
		"HAPROXY_MANAGE_ENDPOINTS_PORT":         freePort(),
		"LUNAR_HEALTHCHECK_PORT":                freePort(),
		"LUNAR_STREAMS_ENABLED":                 "true",
		"LUNAR_PROXY_FLOW_DIRECTORY":            L.flows,
		"LUNAR_PROXY_QUOTAS_DIRECTORY":          L.quotas,
		"LUNAR_FLOWS_PATH_PARAM_DIR":            L.pathParams,
		"LUNAR_PROXY_CONFIG":                    L.gateway,
		"LUNAR_PROXY_METRICS_CONFIG":            L.metricsUser,
		"LUNAR_PROXY_METRICS_CONFIG_DEFAULT":    L.metricsDefault,
		"LUNAR_FLOWS_PATH_PARAM_CONFIG":         L.gen,
		"LUNAR_PROXY_PROCESSORS_DIRECTORY":      filepath.Join(engine, "streams", "processors", "registry"),
		"LUNAR_PROXY_USER_PROCESSORS_DIRECTORY": "",
		"LOG_LEVEL":                             "error",
		"DISCOVERY_STATE_LOCATION":              filepath.Join(cwd, "state", "discovery.json"),
		"REMEDY_STATE_LOCATION":                 filepath.Join(cwd, "state", "remedy.json"),
		"REDIS_URL":                             "",
		"LUNAR_HUB_URL":                         "",
		"LUNAR_API_KEY":                         "",
	}
	env := []string{}
	for _, kv := range os.Environ() {
		keep := true
		for k := range set {
			if len(kv) > len(k) && kv[:len(k)+1] == k+"=" {
				keep = false
			}
		}
		if keep {
			env = append(env, kv)
		}
	}
	for k, v := range set {
		env = append(env, k+"="+v)
	}
	exe, err := os.Executable()
	if err != nil {
		panic(err)
	}
	if err := syscall.Exec(exe, os.Args, env); err != nil {
		panic(err)
	}
}

// stub HAProxy: health-check and admin endpoints always answer 200.
var adminRequests atomic.Int64

func startStubs() {
	// The engine never closes the bodies of its health-check / admin responses, so
	// every reload would pin connections for ever; a client timeout bounds their
	// life (the stubs answer at once), and the descriptor limit is raised.
	http.DefaultClient.Timeout = 10 * time.Second
	var rl syscall.Rlimit
	if syscall.Getrlimit(syscall.RLIMIT_NOFILE, &rl) == nil && rl.Cur < rl.Max {
		rl.Cur = rl.Max
		_ = syscall.Setrlimit(syscall.RLIMIT_NOFILE, &rl)
	}
	for _, p := range []string{os.Getenv("HAPROXY_MANAGE_ENDPOINTS_PORT"), os.Getenv("LUNAR_HEALTHCHECK_PORT")} {
		l, err := net.Listen("tcp", ":"+p)
		if err != nil {
			// somebody took the port between the probe and now: start over (the
			// ports are baked into the engine's package variables by now)
			if n := len(os.Getenv(childEnv)); n < 4 {
				os.Setenv(childEnv+"_RETRY", os.Getenv(childEnv)+"1")
				os.Unsetenv(childEnv)
				reexecWithEnv()
			}
			panic(err)
		}
		mux := http.NewServeMux()
		mux.HandleFunc("/", func(w http.ResponseWriter, r *http.Request) {
			adminRequests.Add(1)
			w.WriteHeader(200)
			if strings.HasPrefix(r.URL.Path, "/healthcheck") {
				// the engine's health-check reads the body with a zero-length buffer and
				// treats the EOF of an empty body as a failed check
				_, _ = w.Write([]byte("OK\n"))
			}
		})
		go func() { _ = http.Serve(l, mux) }()
	}
}
