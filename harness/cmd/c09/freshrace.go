// C09 harness, monitor-only probe "freshrace": first requests of new groups racing with
// metrics collections, left to the Go scheduler (no yield point is used, so it also runs on
// a tree without patches/C09/hook-limit-state-obtained.patch).
//
// getLimiterState publishes a new limiter state and releases the registry mutex before that
// limiter's TryToIncrement stores the window data; a collection that gets in between visits a
// state whose stored window size is 0.  Demanded: the collection returns (the gauge callback
// must not panic).  A hit depends on the scheduler; the deterministic version of the same
// interleaving is the family "gap" of the suite "overlap".
package main

import (
	"context"
	"fmt"
	"strconv"
	"sync"
	"sync/atomic"
	"time"

	lunarMessages "lunar/engine/messages"
	"lunar/engine/services/remedies"
	"lunar/engine/utils/limit"
	"lunar/engine/utils/obfuscation"
	"lunar/toolkit-core/logging"

	"go.opentelemetry.io/otel/metric"

	c "verifharness/common"
)

type RaceCase struct {
	BudgetMs    int    `json:"budget_ms"`
	Requesters  int    `json:"requesting_goroutines"`
	NewGroups   int64  `json:"first_requests_of_new_groups"`
	Collections int64  `json:"collections"`
	Panic       string `json:"collection_panic,omitempty"`
}

func runFreshRace(o *c.Out, k RaceCase, round int) {
	deadline := time.Now().Add(time.Duration(k.BudgetMs) * time.Millisecond)
	var stop atomic.Bool
	rm := Remedy{Name: "race", Allowed: 1000000, WindowS: 3600, Gqa: &Gqa{Header: "x-group",
		Default: "use_default_allocation", DefPctE4: 1000000}}
	sr := remedyConfig(rm)
	serial := int64(0)
	for !stop.Load() && time.Now().Before(deadline) {
		// a new registry every few thousand groups: Counters() walks the whole map
		clk := &fakeClock{now: 1_700_000_000 * sec}
		st := limit.NewRateLimitState(clk, logging.ContextLogger{})
		meter := &captureMeter{cbs: map[string][]metric.Int64Callback{}}
		p, err := remedies.NewStrategyBasedThrottlingPlugin(context.Background(), clk, meter, st,
			obfuscation.Obfuscator{Hasher: obfuscation.IdentityHasher{}})
		if err != nil {
			panic(err)
		}
		cb := meter.cbs[quotaUsedGauge][0]
		var done atomic.Bool
		var wg sync.WaitGroup
		wg.Add(1)
		go func() { // the collector
			defer wg.Done()
			for !done.Load() {
				func() {
					defer func() {
						if r := recover(); r != nil {
							k.Panic = fmt.Sprint(r)
							stop.Store(true)
							done.Store(true)
						}
					}()
					_ = cb(context.Background(), &captureObserver{})
					atomic.AddInt64(&k.Collections, 1)
				}()
			}
		}()
		for w := 0; w < k.Requesters; w++ {
			wg.Add(1)
			go func(w int) {
				defer wg.Done()
				for i := 0; i < 1500 && !done.Load(); i++ {
					id := atomic.AddInt64(&serial, 1)
					req := lunarMessages.OnRequest{ID: "r", SequenceID: "r", Method: "GET", Scheme: "https",
						URL: "verif.test/c09", Path: "/c09", Headers: map[string]string{"x-group": "n" + strconv.FormatInt(id, 10)}}
					onRequest(p, req, sr)
					atomic.AddInt64(&k.NewGroups, 1)
				}
				done.Store(true)
			}(w)
		}
		wg.Wait()
	}
	o.Case0(k, k.NewGroups > 0 && k.Collections > 0)
	o.MonitorChecked(1)
	o.Count("freshrace-rounds")
	if k.Panic != "" {
		o.Hit(c.Hit{Suite: "freshrace", Index: round, Signature: "collection-failed:fresh-limiter-race",
			Demanded: "a metrics collection (quota_used gauge callback -> RateLimitState.Counters()) returns, whatever requests run at the same time",
			Observed: fmt.Sprintf("the callback panicked (%s) after %d first requests of new groups and %d collections",
				k.Panic, k.NewGroups, k.Collections),
			Case: k})
	}
}

func freshRace(o *c.Out) {
	runFreshRace(o, RaceCase{BudgetMs: o.Scale(300, 3000, 6000), Requesters: 3}, 0)
}
