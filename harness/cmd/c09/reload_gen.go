// Generators for two situations the random plugin / hist generators reach too rarely
// (seeded changes C09-11 and C09-12 were first reported without a failing input):
//
//	reload     ONE plugin instance (it is a process-lifetime singleton that survives
//	           apply_policies) across configuration changes that keep the remedy name and
//	           the NUMBER of groups but edit the percentages, swap which header values are
//	           listed, or both; same window size before and after, so every request stays
//	           judged.  Every listed / formerly listed / unlisted value sends up to
//	           share+2 requests in every window, before and after the change, also with
//	           the change in the middle of a window and with a change back.
//	spillfrac  spill-over enabled + a group share that is not a whole number (5 at 50 %,
//	           10 at 33.33 % ...) + a first window that leaves budget unused, so that the
//	           carried-over amount times the ratio is fractional too, then windows in
//	           which the group asks for more than ceil((allowed+carried over)*ratio).
//	           At plugin level (PluginCase) and on the package API (HistCase).
//
// Both produce ordinary PluginCase / HistCase values: correspondence, monitor and replay are
// those of the "plugin" and "hist" suites.
package main

import (
	"time"

	c "verifharness/common"
)

var reloadValues = []string{"a", "b", "c", "d"}

// (allowed, percentage x 10^4) with allowed*pct/100 not a whole number
var fracShares = [][2]int64{
	{5, 500000}, {7, 500000}, {9, 500000}, {3, 500000}, {5, 300000}, {10, 250000},
	{10, 333300}, {7, 250000}, {9, 700000}, {5, 500000}, {11, 500000}, {6, 250000},
}

var reloadPcts = []int64{200000, 500000, 800000, 300000, 250000, 333300, 100000, 700000, 1000000, 0, 600000, 125000}

func shuffled[T any](r *c.Rng, xs []T) []T {
	out := append([]T{}, xs...)
	for i := len(out) - 1; i > 0; i-- {
		j := r.Intn(i + 1)
		out[i], out[j] = out[j], out[i]
	}
	return out
}

func sameTable(a, b []Alloc) bool {
	if len(a) != len(b) {
		return false
	}
	for i := range a {
		if a[i] != b[i] {
			return false
		}
	}
	return true
}

// a new version of the table with the same number of entries
func editTable(r *c.Rng, old []Alloc, kind int) []Alloc {
	n := len(old)
	nw := append([]Alloc{}, old...)
	switch kind {
	case 0: // the percentages move one group on
		for i := range nw {
			nw[i].PctE4 = old[(i+1)%n].PctE4
		}
	case 1: // fresh percentages
		for i := range nw {
			nw[i].PctE4 = c.Pick(r, reloadPcts)
		}
	case 2: // one listed value is replaced by one that was not listed (same percentages)
		listed := map[string]bool{}
		for _, a := range old {
			listed[a.Value] = true
		}
		for _, v := range shuffled(r, reloadValues) {
			if !listed[v] {
				nw[r.Intn(n)].Value = v
				break
			}
		}
	default: // the header values change places and one percentage is edited
		for i := range nw {
			nw[i].Value = old[(i+1)%n].Value
		}
		nw[r.Intn(n)].PctE4 = c.Pick(r, reloadPcts)
	}
	if sameTable(nw, old) { // e.g. equal percentages rotated
		nw[0].PctE4 = (old[0].PctE4 + 300000) % 1100000
	}
	return nw
}

// spillFrac: spill-over on, fractional shares, first window leaves budget unused
func genPluginReloadCase(r *c.Rng, spillFrac bool) PluginCase {
	var k PluginCase
	const hdr = "x-group"
	w := int64(c.Pick(r, []int{1, 2, 10, 60}))
	base := (int64(r.Next()%uint64(100*365*day))/(w*sec) + 1) * (w * sec)
	rm := Remedy{
		Name: "r1", Allowed: int64(c.Pick(r, []int{5, 10, 7, 9, 20, 4})), WindowS: int(w),
		Status: c.Pick(r, []int{0, 429, 503, 418}),
	}
	ng := r.Range(2, 3)
	g := &Gqa{Header: hdr, Default: c.Pick(r, []string{"block", "allow", "use_default_allocation", "block"}),
		DefPctE4: c.Pick(r, []int64{100000, 250000, 500000})}
	vals := shuffled(r, reloadValues)
	for i := 0; i < ng; i++ {
		g.Groups = append(g.Groups, Alloc{Value: vals[i], PctE4: c.Pick(r, reloadPcts)})
	}
	if spillFrac || r.Chance(1, 3) {
		rm.Spill = true
		if r.Chance(1, 5) { // a renew day two weeks away from every instant of the history
			rm.Renew = (time.Unix(0, base).UTC().Day()+13)%28 + 1
		}
	}
	if spillFrac {
		f := c.Pick(r, fracShares)
		rm.Allowed = f[0]
		g.Groups[0].PctE4 = f[1]
		if r.Bool() {
			g.Groups[1].PctE4 = 1000000 - f[1]
		}
	}
	rm.Gqa = g
	k.Remedies = append(k.Remedies, rm)

	// versions of the same remedy (same name, same number of groups)
	nv := 1
	if !spillFrac || r.Chance(1, 3) {
		nv = r.Range(2, 3)
	}
	for v := 1; v < nv; v++ {
		prev := k.Remedies[len(k.Remedies)-1]
		nx := prev
		ng2 := *prev.Gqa
		ng2.Groups = editTable(r, prev.Gqa.Groups, r.Intn(4))
		if v == 2 && r.Bool() { // changed back
			ng2.Groups = append([]Alloc{}, k.Remedies[0].Gqa.Groups...)
		}
		nx.Gqa = &ng2
		if r.Chance(1, 6) {
			nx.Allowed = prev.Allowed + int64(r.Range(1, 3))
		}
		k.Remedies = append(k.Remedies, nx)
	}
	// an unrelated remedy whose requests are interleaved (its counters are its own)
	other := -1
	if r.Chance(1, 3) {
		other = len(k.Remedies)
		k.Remedies = append(k.Remedies, Remedy{Name: "r2", Allowed: int64(r.Range(1, 4)), WindowS: int(w), Status: 503})
	}

	nwin := r.Range(3, 5)
	if nv == 1 {
		nwin = r.Range(3, 4)
	}
	// the window (and position inside it) at which each later version takes over
	switchWin := make([]int, nv)
	switchMid := make([]bool, nv)
	for v := 1; v < nv; v++ {
		switchWin[v] = switchWin[v-1] + r.Range(1, 2)
		if switchWin[v] >= nwin {
			switchWin[v] = nwin - 1
		}
		switchMid[v] = r.Chance(1, 5)
	}
	winIdx := int64(0)
	cur := 0
	carryGuess := int64(0)
	for wi := 0; wi < nwin; wi++ {
		if wi > 0 {
			winIdx++
			if r.Chance(1, 8) {
				winIdx++ // a window without any request
			}
		}
		// who asks how often in this window
		type ask struct {
			val string
			rem int // -1: current version of r1
		}
		var asks []ask
		midAt := -1
		nextV := cur
		for v := cur + 1; v < nv; v++ {
			if switchWin[v] == wi {
				nextV = v
			}
		}
		mid := nextV != cur && switchMid[nextV]
		if nextV != cur && !mid {
			cur = nextV
		}
		table := k.Remedies[cur].Gqa.Groups
		for _, v := range reloadValues {
			e4 := int64(-1)
			for _, a := range table {
				if a.Value == v {
					e4 = a.PctE4
					break
				}
			}
			if e4 < 0 && k.Remedies[cur].Gqa.Default == "use_default_allocation" {
				e4 = k.Remedies[cur].Gqa.DefPctE4
			}
			lim := int64(1)
			if e4 >= 0 {
				lim = exactShare(k.Remedies[cur].Allowed+carryGuess, e4)
			}
			var n int64
			switch {
			case spillFrac && wi == 0:
				n = int64(r.Range(0, 3)) // leaves budget unused
			case rm.Spill && wi == 0:
				n = int64(r.Range(0, int(lim)+1))
			case r.Chance(1, 6):
				n = int64(r.Range(0, 2))
			default:
				n = lim + int64(r.Range(1, 2))
			}
			if n > 14 {
				n = 14
			}
			if e4 < 0 && n > 3 {
				n = 3
			}
			for i := int64(0); i < n; i++ {
				asks = append(asks, ask{v, -1})
			}
		}
		if rm.Spill {
			carryGuess += k.Remedies[cur].Allowed / 2
		}
		if other >= 0 {
			for i := 0; i < r.Range(0, 5); i++ {
				asks = append(asks, ask{"", other})
			}
		}
		if r.Chance(2, 3) {
			asks = shuffled(r, asks)
		}
		if mid && len(asks) > 0 {
			midAt = r.Intn(len(asks))
		}
		// instants strictly inside the window, non-decreasing
		wstart := base + winIdx*w*sec
		step := (w*sec - 2) / int64(len(asks)+1)
		for i, a := range asks {
			if i == midAt {
				cur = nextV
			}
			ri := cur
			h := map[string]string{}
			if a.rem >= 0 {
				ri = a.rem
			} else {
				h[hdr] = a.val
			}
			k.Reqs = append(k.Reqs, Req{Now: wstart + 1 + int64(i)*step, Remedy: ri, Headers: h})
		}
		if mid && cur != nextV {
			cur = nextV
		}
	}
	return k
}

// the same situation on the package API: one or two keys, spill-over on, fractional shares,
// consecutive windows, the percentage (and sometimes the allowed count) edited between windows
func genHistSpillCase(r *c.Rng) HistCase {
	var k HistCase
	k.Keys = []Key{{Limiter: "A", Grouped: true, Group: "x-group:a"}}
	if r.Chance(1, 3) {
		k.Keys = append(k.Keys, Key{Limiter: "A", Grouped: true, Group: "x-group:b"})
	}
	w := c.Pick(r, []int64{10, 1000, sec, 60 * sec})
	base := (int64(r.Next()%uint64(100*365*day))/w + 1) * w
	f := c.Pick(r, fracShares)
	p0 := Profile{W: w, Allowed: f[0], PctE4: f[1], RatioBits: ratioBitsOfPct(f[1]), Spill: true}
	if r.Chance(1, 5) {
		p0.Renew = (time.Unix(0, base).UTC().Day()+13)%28 + 1
	}
	k.Profiles = []Profile{p0}
	if r.Chance(1, 3) { // an edited percentage / allowed count
		p1 := p0
		p1.PctE4 = c.Pick(r, reloadPcts)
		p1.RatioBits = ratioBitsOfPct(p1.PctE4)
		if r.Chance(1, 4) {
			p1.Allowed += int64(r.Range(1, 3))
		}
		k.Profiles = append(k.Profiles, p1)
	}
	nwin := r.Range(3, 5)
	winIdx := int64(0)
	cur := 0
	for wi := 0; wi < nwin; wi++ {
		if wi > 0 {
			winIdx++
			if r.Chance(1, 8) {
				winIdx++
			}
			if len(k.Profiles) > 1 && r.Chance(1, 2) {
				cur = 1 - cur
			}
		}
		var keys []int
		for ki := range k.Keys {
			n := r.Range(8, 14)
			if wi == 0 {
				n = r.Range(0, 3)
			} else if r.Chance(1, 5) {
				n = r.Range(0, 2)
			}
			for i := 0; i < n; i++ {
				keys = append(keys, ki)
			}
		}
		keys = shuffled(r, keys)
		wstart := base + winIdx*w
		for i, ki := range keys {
			off := 1 + int64(i)*(w-2)/int64(len(keys)+1)
			if r.Chance(1, 15) {
				k.Ops = append(k.Ops, Op{Now: wstart + off, Peek: true})
			}
			k.Ops = append(k.Ops, Op{Now: wstart + off, Key: ki, Prof: cur})
		}
	}
	return k
}

func genReload(o *c.Out) {
	r := o.Rng.Fork(11)
	for i := 0; i < o.Scale(90, 800, 2500); i++ {
		k := genPluginReloadCase(r, false)
		o.Count("plugin:reload")
		runPlugin(o, k)
	}
	for i := 0; i < o.Scale(50, 400, 1500); i++ {
		k := genPluginReloadCase(r, true)
		o.Count("plugin:spillfrac")
		runPlugin(o, k)
	}
	for i := 0; i < o.Scale(120, 1500, 3000); i++ {
		k := genHistSpillCase(r)
		o.Count("hist:spillfrac")
		runHist(o, k)
	}
}
