// Generators of the suite "overlap" (see overlap.go).
//
// The set of threads of a case (requests with their yield points, collections with the
// clock readings at which they are held, follow-up requests) is fixed first; the operations
// are then chosen while the case runs, from the status vector the executor observed, under
// rules that keep the outcome on the unchanged tree independent of the Go scheduler and of
// Go's map iteration order:
//
//	R1  at most one collection is active; the clock is not moved while one is active
//	R2  a request is started / released from the hasher only if no request of the same
//	    (remedy, group) is waiting for a mutex (two runnable requests of one group would race
//	    for the limiter)
//	R3  a collection is started only if no request is waiting for a mutex, and one that is
//	    held in a clock reading only if no request holds a limiter (which limiter the
//	    collection reaches first depends on the map order)
//	R4  a request held at the yield point after getLimiterState (family "gap", only on a tree
//	    with the hook) is released only while no collection is active and no request of its
//	    group is waiting for a mutex (it goes straight for its limiter's mutex; a collection
//	    parked in or waiting for that limiter would race with it)
package main

import (
	"fmt"

	c "verifharness/common"
)

type ogen struct {
	r  *c.Rng
	k  *OverlapCase
	x  *orunner
	st []int
	// plan
	follow []int // follow-up requests, run one by one at the end
	w      int64 // the window size of remedy 0, ns
}

func (g *ogen) nr() int { return len(g.k.Reqs) }

func (g *ogen) keyID(i int) string {
	q := g.k.Reqs[i]
	rm := g.k.Remedies[q.Remedy]
	if rm.Gqa == nil {
		return fmt.Sprintf("%d/", q.Remedy)
	}
	return fmt.Sprintf("%d/%s", q.Remedy, q.Headers[rm.Gqa.Header])
}

func (g *ogen) do(op OvOp) { g.st = g.x.do(op) }

func (g *ogen) reqSt(i int) int { return g.st[i] }
func (g *ogen) colSt(j int) int { return g.st[g.nr()+j] }

func (g *ogen) colActive() bool {
	for j := range g.k.Cols {
		if s := g.colSt(j); s != -1 && s != 3 {
			return true
		}
	}
	return false
}

func (g *ogen) anyReq(s int) bool {
	for i := 0; i < g.nr(); i++ {
		if g.reqSt(i) == s {
			return true
		}
	}
	return false
}

func (g *ogen) sameKeyWaiting(i int) bool {
	id := g.keyID(i)
	for j := 0; j < g.nr(); j++ {
		if j != i && g.reqSt(j) == 0 && g.keyID(j) == id {
			return true
		}
	}
	return false
}

func (g *ogen) canStart(i int) bool { return g.reqSt(i) == -1 && !g.sameKeyWaiting(i) }
func (g *ogen) canRelease(i int) bool {
	return g.reqSt(i) == 2 || (g.reqSt(i) == 1 && !g.sameKeyWaiting(i)) ||
		(g.reqSt(i) == 4 && !g.colActive() && !g.sameKeyWaiting(i))
}
func (g *ogen) canCollect(j int) bool {
	return g.colSt(j) == -1 && !g.colActive() && !g.anyReq(0) && (len(g.k.Cols[j]) == 0 || !g.anyReq(2))
}

func (g *ogen) now() int64 {
	g.x.mu.Lock()
	defer g.x.mu.Unlock()
	return g.x.now - g.k.Base
}

// ---------------------------------------------------------------- the plan of a case

var ovValues = []string{"a", "b", "c"}

// remedy 0: grouped, shares of 1..4 requests; remedy 1 (sometimes): ungrouped
func (g *ogen) remedies() {
	r := g.r
	type shape struct {
		allowed int64
		pcts    []int64
	}
	sh := c.Pick(r, []shape{
		{2, []int64{500000, 500000, 500000}},  // 1 each
		{4, []int64{500000, 250000, 250000}},  // 2, 1, 1
		{3, []int64{333300, 333300, 1000000}}, // 1, 1, 3
		{10, []int64{100000, 200000, 400000}}, // 1, 2, 4
		{100, []int64{10000, 30000, 20000}},   // 1, 3, 2
		{1, []int64{1000000, 1000000, 10000}}, // 1, 1, 1
	})
	ws := c.Pick(r, []int{1, 1, 2, 10})
	gq := &Gqa{Header: c.Pick(r, []string{"x-group", "X-Group"}), Default: c.Pick(r, []string{"block", "allow", "use_default_allocation"}),
		DefPctE4: 500000}
	ng := r.Range(1, 3)
	for i := 0; i < ng; i++ {
		gq.Groups = append(gq.Groups, Alloc{Value: ovValues[i], PctE4: sh.pcts[i]})
	}
	g.k.Remedies = append(g.k.Remedies, Remedy{Name: "r1", Allowed: sh.allowed, WindowS: ws,
		Status: c.Pick(r, []int{0, 429, 503}), Gqa: gq})
	if r.Chance(1, 3) {
		g.k.Remedies = append(g.k.Remedies, Remedy{Name: "r2", Allowed: int64(r.Range(1, 3)), WindowS: ws,
			Status: c.Pick(r, []int{0, 429})})
	}
	g.w = int64(ws) * sec
	t := int64(r.Next()%uint64(50*365*day))/g.w*g.w + 20*365*day/g.w*g.w
	switch r.Intn(5) {
	case 0: // on the grid
	case 1:
		t++
	case 2:
		t += g.w - 1
	default:
		t += int64(r.Next() % uint64(g.w))
	}
	g.k.Base = t
}

// the keys a case may use: (remedy index, header value)
type okey struct {
	rem int
	val string
}

func (g *ogen) keys() []okey {
	var ks []okey
	for _, a := range g.k.Remedies[0].Gqa.Groups {
		ks = append(ks, okey{0, a.Value})
	}
	if len(g.k.Remedies) > 1 {
		ks = append(ks, okey{1, ""})
	}
	return ks
}

func (g *ogen) share(k okey) int64 {
	rm := g.k.Remedies[k.rem]
	if rm.Gqa == nil {
		return rm.Allowed
	}
	for _, a := range rm.Gqa.Groups {
		if a.Value == k.val {
			return exactShare(rm.Allowed, a.PctE4)
		}
	}
	return 0
}

func (g *ogen) addReq(k okey, parkH, parkC bool) int {
	q := OvReq{Remedy: k.rem, Headers: map[string]string{}, ParkC: parkC}
	if rm := g.k.Remedies[k.rem]; rm.Gqa != nil {
		q.Headers[rm.Gqa.Header] = k.val
		q.ParkH = parkH
	}
	g.k.Reqs = append(g.k.Reqs, q)
	return len(g.k.Reqs) - 1
}

func (g *ogen) addGapReq(k okey, parkC bool) int {
	i := g.addReq(k, false, parkC)
	g.k.Reqs[i].ParkG = true
	return i
}

func (g *ogen) addFollowUps(ks []okey) {
	for _, k := range ks {
		n := int(g.share(k)) + 1
		if g.r.Chance(1, 4) {
			n++
		}
		for i := 0; i < n; i++ {
			g.follow = append(g.follow, g.addReq(k, false, false))
		}
	}
	// interleave the groups
	for i := len(g.follow) - 1; i > 0; i-- {
		j := g.r.Intn(i + 1)
		g.follow[i], g.follow[j] = g.follow[j], g.follow[i]
	}
}

func (g *ogen) begin() {
	g.x = newORunner(g.k)
	g.st = g.x.status()
}

// moves the clock (R1: only while no collection is active)
func (g *ogen) moveClock(kind int) {
	if g.colActive() {
		return
	}
	t := g.k.Base + g.now()
	b := (t/g.w + 1) * g.w
	var n int64
	switch kind {
	case 0: // next window, somewhere inside
		n = b + 1 + int64(g.r.Next()%uint64(g.w-1))
	case 1: // exactly the next grid instant
		n = b
	case 2:
		n = b + 1
	case 3: // same window
		n = t + int64(g.r.Next()%uint64(b-t))
	case 4:
		n = b - 1
	default:
		n = nextInstant(g.r, t, g.w)
	}
	if n < t {
		n = t
	}
	g.do(OvOp{K: "set", T: n - g.k.Base})
}

// releases / resumes whatever is held, starts what was not started, until every thread
// of the plan (except the follow-ups) is finished; then the follow-ups one by one
func (g *ogen) finish(planned []int) {
	for round := 0; round < 200; round++ {
		var ops []OvOp
		for j := range g.k.Cols {
			if g.colSt(j) == 2 {
				ops = append(ops, OvOp{K: "resume", I: j})
			}
			if g.canCollect(j) {
				ops = append(ops, OvOp{K: "collect", I: j})
			}
		}
		for _, i := range planned {
			if g.canStart(i) {
				ops = append(ops, OvOp{K: "start", I: i})
			}
			if g.reqSt(i) == 1 || g.reqSt(i) == 2 || g.reqSt(i) == 4 {
				if g.canRelease(i) {
					ops = append(ops, OvOp{K: "release", I: i})
				}
			}
		}
		if len(ops) == 0 {
			break
		}
		g.do(c.Pick(g.r, ops))
	}
	if g.r.Chance(1, 3) {
		g.moveClock(3)
	}
	for _, i := range g.follow {
		if g.canStart(i) {
			g.do(OvOp{K: "start", I: i})
		}
	}
	g.x.close()
}

// ---------------------------------------------------------------- families

// "inflight": requests held in the hasher (past the plugin section, before the registry
// look-up) while a collection runs / is held between two limiters; they are let go during
// the collection
func genOverlapInflight(r *c.Rng) *OverlapCase {
	g := &ogen{r: r, k: &OverlapCase{Family: "inflight"}}
	g.remedies()
	ks := g.keys()
	var warm, infl []int
	for _, k := range ks {
		if !r.Chance(1, 5) {
			warm = append(warm, g.addReq(k, false, false))
		}
	}
	for _, k := range ks {
		if k.rem == 0 && !r.Chance(1, 6) {
			infl = append(infl, g.addReq(k, true, r.Chance(1, 6)))
		}
	}
	var late []int
	if r.Chance(1, 3) {
		late = append(late, g.addReq(c.Pick(r, ks), r.Bool(), false))
	}
	g.addFollowUps(ks)
	switch r.Intn(6) {
	case 0:
		g.k.Cols = [][]int{{}}
	case 1:
		g.k.Cols = [][]int{{1, 2}}
	case 2:
		g.k.Cols = [][]int{{1}, {2}}
	default:
		g.k.Cols = [][]int{{r.Range(1, 3)}}
	}
	g.begin()
	for _, i := range warm {
		g.do(OvOp{K: "start", I: i})
	}
	g.moveClock(c.Pick(r, []int{0, 0, 0, 1, 2, 3, 4}))
	for _, i := range infl {
		if g.canStart(i) {
			g.do(OvOp{K: "start", I: i})
		}
	}
	if g.canCollect(0) {
		g.do(OvOp{K: "collect", I: 0})
	}
	// let the held requests go while the collection is where it is
	for _, i := range infl {
		if g.reqSt(i) == 1 && g.canRelease(i) && !r.Chance(1, 5) {
			g.do(OvOp{K: "release", I: i})
		}
	}
	for _, i := range late {
		if g.canStart(i) {
			g.do(OvOp{K: "start", I: i})
		}
	}
	g.finish(append(append(append([]int{}, warm...), infl...), late...))
	return g.k
}

// "holder": a request held in its clock reading (inside TryToIncrement, the limiter's mutex
// held) while a collection and other requests arrive
func genOverlapHolder(r *c.Rng) *OverlapCase {
	g := &ogen{r: r, k: &OverlapCase{Family: "holder"}}
	g.remedies()
	ks := g.keys()
	var warm, others []int
	for _, k := range ks {
		if r.Bool() {
			warm = append(warm, g.addReq(k, false, false))
		}
	}
	hk := c.Pick(r, ks)
	holder := g.addReq(hk, false, true)
	for n := r.Range(0, 2); n > 0; n-- {
		others = append(others, g.addReq(c.Pick(r, ks), r.Chance(1, 3), false))
	}
	g.addFollowUps(ks)
	g.k.Cols = [][]int{{}}
	if r.Chance(1, 4) {
		g.k.Cols = append(g.k.Cols, []int{r.Range(1, 2)})
	}
	g.begin()
	for _, i := range warm {
		g.do(OvOp{K: "start", I: i})
	}
	g.moveClock(c.Pick(r, []int{0, 1, 2, 3, 3, 5}))
	g.do(OvOp{K: "start", I: holder})
	if r.Bool() {
		g.moveClock(c.Pick(r, []int{0, 1, 2, 3, 3, 4}))
	}
	planned := append(append(append([]int{}, warm...), holder), others...)
	for step := 0; step < 4; step++ {
		var ops []OvOp
		if g.canCollect(0) {
			ops = append(ops, OvOp{K: "collect", I: 0}, OvOp{K: "collect", I: 0})
		}
		for _, i := range others {
			if g.canStart(i) {
				ops = append(ops, OvOp{K: "start", I: i})
			}
			if g.reqSt(i) == 1 && g.canRelease(i) {
				ops = append(ops, OvOp{K: "release", I: i})
			}
		}
		if len(ops) == 0 {
			break
		}
		g.do(c.Pick(r, ops))
	}
	g.finish(planned)
	return g.k
}

// "mixed": two to four requests and one or two collections, every permutation the rules allow
func genOverlapMixed(r *c.Rng) *OverlapCase {
	g := &ogen{r: r, k: &OverlapCase{Family: "mixed"}}
	g.remedies()
	ks := g.keys()
	var planned []int
	for _, k := range ks {
		if r.Chance(2, 3) {
			planned = append(planned, g.addReq(k, false, false)) // usually run first: the limiter exists
		}
	}
	nw := len(planned)
	for n := r.Range(2, 4); n > 0; n-- {
		planned = append(planned, g.addReq(c.Pick(r, ks), r.Chance(1, 2), r.Chance(1, 3)))
	}
	g.addFollowUps(ks)
	for n := r.Range(1, 2); n > 0; n-- {
		switch r.Intn(4) {
		case 0:
			g.k.Cols = append(g.k.Cols, []int{})
		case 1:
			g.k.Cols = append(g.k.Cols, []int{1, 2})
		default:
			g.k.Cols = append(g.k.Cols, []int{r.Range(1, 3)})
		}
	}
	g.begin()
	for _, i := range planned[:nw] {
		g.do(OvOp{K: "start", I: i})
	}
	if r.Chance(2, 3) {
		g.moveClock(c.Pick(r, []int{0, 0, 1, 2, 3, 4, 5}))
	}
	for step := r.Range(3, 12); step > 0; step-- {
		var ops []OvOp
		for j := range g.k.Cols {
			if g.colSt(j) == 2 {
				ops = append(ops, OvOp{K: "resume", I: j})
			}
			if g.canCollect(j) {
				ops = append(ops, OvOp{K: "collect", I: j}, OvOp{K: "collect", I: j})
			}
		}
		for _, i := range planned[nw:] {
			if g.canStart(i) {
				ops = append(ops, OvOp{K: "start", I: i}, OvOp{K: "start", I: i})
			}
			if (g.reqSt(i) == 1 || g.reqSt(i) == 2) && g.canRelease(i) {
				ops = append(ops, OvOp{K: "release", I: i})
			}
		}
		if !g.colActive() && r.Chance(1, 5) {
			g.moveClock(c.Pick(r, []int{1, 2, 3, 3, 4, 5}))
			continue
		}
		if len(ops) == 0 {
			break
		}
		g.do(c.Pick(r, ops))
	}
	g.finish(planned)
	return g.k
}

// "gap": requests held right after getLimiterState has registered / returned their limiter
// (no mutex held; a just registered state has no window data yet) while collections run and
// other requests of the same and of other groups pass them
func genOverlapGap(r *c.Rng) *OverlapCase {
	g := &ogen{r: r, k: &OverlapCase{Family: "gap"}}
	g.remedies()
	ks := g.keys()
	var warm, gap, others []int
	fresh := map[okey]bool{}
	for _, k := range ks {
		if r.Chance(1, 3) {
			warm = append(warm, g.addReq(k, false, false))
		} else {
			fresh[k] = true
		}
	}
	for _, k := range ks {
		if fresh[k] && (len(gap) == 0 || r.Bool()) {
			gap = append(gap, g.addGapReq(k, r.Chance(1, 6)))
		}
	}
	if len(gap) == 0 || r.Chance(1, 4) { // also on a limiter that exists already
		gap = append(gap, g.addGapReq(c.Pick(r, ks), false))
	}
	for n := r.Range(0, 2); n > 0; n-- {
		others = append(others, g.addReq(c.Pick(r, ks), r.Chance(1, 4), false))
	}
	g.addFollowUps(ks)
	switch r.Intn(5) {
	case 0:
		g.k.Cols = [][]int{{}, {}}
	case 1:
		g.k.Cols = [][]int{{1}}
	case 2:
		g.k.Cols = [][]int{{}, {r.Range(1, 2)}}
	default:
		g.k.Cols = [][]int{{}}
	}
	g.begin()
	for _, i := range warm {
		g.do(OvOp{K: "start", I: i})
	}
	if r.Chance(2, 3) {
		g.moveClock(c.Pick(r, []int{0, 0, 1, 2, 3, 4}))
	}
	for _, i := range gap {
		if g.canStart(i) {
			g.do(OvOp{K: "start", I: i})
		}
	}
	// the first collection meets the registered, still empty states
	if g.canCollect(0) {
		g.do(OvOp{K: "collect", I: 0})
	}
	planned := append(append(append([]int{}, warm...), gap...), others...)
	for step := r.Range(2, 8); step > 0; step-- {
		var ops []OvOp
		for j := range g.k.Cols {
			if g.colSt(j) == 2 {
				ops = append(ops, OvOp{K: "resume", I: j})
			}
			if g.canCollect(j) {
				ops = append(ops, OvOp{K: "collect", I: j})
			}
		}
		for _, i := range others {
			if g.canStart(i) {
				ops = append(ops, OvOp{K: "start", I: i})
			}
			if g.reqSt(i) == 1 && g.canRelease(i) {
				ops = append(ops, OvOp{K: "release", I: i})
			}
		}
		for _, i := range gap {
			if (g.reqSt(i) == 4 || g.reqSt(i) == 2) && g.canRelease(i) {
				ops = append(ops, OvOp{K: "release", I: i})
			}
		}
		if !g.colActive() && r.Chance(1, 6) {
			g.moveClock(c.Pick(r, []int{1, 2, 3, 3, 4, 5}))
			continue
		}
		if len(ops) == 0 {
			break
		}
		g.do(c.Pick(r, ops))
	}
	g.finish(planned)
	return g.k
}

func genOverlap(o *c.Out) {
	r := o.Rng.Fork(9)
	n := o.Scale(83, 1500, 1200)
	for i := 0; i < n; i++ {
		runOverlapCase(o, genOverlapInflight(r))
		runOverlapCase(o, genOverlapHolder(r))
		runOverlapCase(o, genOverlapMixed(r))
	}
	// the yield point after getLimiterState exists only on a tree with
	// patches/C09/hook-limit-state-obtained.patch
	if !gapHook() {
		o.Count("overlap:gap-hook-absent")
		return
	}
	rg := o.Rng.Fork(10)
	for i := 0; i < o.Scale(60, 1200, 1500); i++ {
		runOverlapCase(o, genOverlapGap(rg))
	}
}
