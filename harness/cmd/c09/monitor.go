// Property monitor for C09, written over what the implementation did only
// (inputs the harness chose + verdicts it observed); it shares no code with the
// Coq model and never asks the implementation what the limit is.
//
// The property: in every grid window of the configured length at most
// ceil(allowed * pct / 100) requests of a (remedy, group) proceed, the others get
// the configured status; groups/remedies never influence each other; handled one
// at a time, a request is rejected only when its group's share of the current
// window is used up.
//
// What the text leaves open is resolved in favour of the implementation:
//   - closure of the window edges: over-admission is reported only when it exists
//     under left-closed AND under right-closed grid windows; a rejection is
//     accepted when the share is used up in the closed cell [kW,(k+1)W] around it;
//   - after a change of the window size the window that was open at that moment may
//     run to its end: requests are judged only when their whole grid cell starts at
//     or after the end of the last old-size window ("settled");
//   - requests handled while spill-over is ENABLED for them are held to the budget including
//     the carried-over amount, ceil((allowed + carried over) * pct/100) with the percentage in
//     force when the request is handled -- one ceiling of the whole budget, never a sum of
//     ceilings -- where that amount is determined: see spillTrack (an interval where
//     reasonable implementations may differ, nothing once the history leaves the plain
//     case); requests handled with spill-over DISABLED are held to the nominal share
//     ceil(allowed*pct/100) -- also when spill-over was enabled for the group earlier.  A
//     failure of such a request is classified "stale-spillover:TryToIncrement" (known finding
//     F-C09c: the amount accumulated while spill-over was on stays in the limit) exactly when
//     some earlier request of the same (remedy, group) had spill-over enabled; without such a
//     request it is an ordinary over-admission / unjustified rejection;
//   - default behaviour "undefined"/unknown literals are not judged;
//   - header values differing only in surrounding white space: counted as different
//     groups for the upper bound and as one group for the rejection check.
package main

import (
	"fmt"
	"math/big"
	"strings"
	"time"

	c "verifharness/common"
)

// ceil(allowed * pct / 100) with pct = e4 / 10^4, never negative
func exactShare(allowed, e4 int64) int64 {
	if allowed <= 0 || e4 <= 0 {
		return 0
	}
	p := new(big.Int).Mul(big.NewInt(allowed), big.NewInt(e4))
	q, m := new(big.Int).QuoRem(p, big.NewInt(1000000), new(big.Int))
	if m.Sign() > 0 {
		q.Add(q, big.NewInt(1))
	}
	return q.Int64()
}

func floorDiv(a, b int64) int64 {
	q := a / b
	if a%b != 0 && (a < 0) != (b < 0) {
		q--
	}
	return q
}

// one judged call
type rec struct {
	idx    int
	fine   string // group identity for the upper bound (finest plausible)
	coarse string // group identity for the rejection check (coarsest plausible)
	now, w int64
	lo, hi int64 // exact share (lo < hi only when the table lists the value twice)
	pass   bool  // proceeded
	judge  bool  // false: the text says nothing definite about this call
	spill  bool  // spill-over enabled for this call
	peek   bool  // a Counters() call: touches every group, carries no verdict
	// for calls handled with spill-over enabled: the inputs of the exact bound
	// ceil((allowed + carried over) * pct/100)
	allowed    int64
	e4lo, e4hi int64 // percentage (x 10^4) in force for this call (lo < hi: value listed twice)
	renew      int   // spill-over renew day
}

type passRec struct {
	t    int64
	fine string
}

// one state per coarse group (the implementation may well keep one counter for it);
// the fine identity only decides which earlier passes count against the upper bound
type groupState struct {
	curW     int64
	lastT    int64
	seen     bool
	staleEnd int64 // end of the last window opened under an earlier window size
	stale    bool
	dead     bool // a non-positive window size / an unjudgeable ratio was used for this group
	spilled  bool // some earlier request of this group had spill-over enabled
	passes   []passRec
	plain    bool // some earlier request of this group was handled with spill-over disabled
	sp       spillTrack
}

// The carried-over budget of a group whose requests all had spill-over enabled, as far
// as the property's vocabulary fixes it: at every change of window the unused part of the
// budget (allowed - passed in the window that ended) is added.  Where a reasonable
// implementation may differ the amount is an interval [lo, hi]:
//   - allowed count changed between the window that ended and the request that opens the
//     next one: either count;
//   - grid windows without any request of the group in between: each adds between nothing
//     (this code: only a window that is closed by an event adds its rest) and a whole
//     allowed count.
// Nothing is tracked (dead) once the group saw a request with spill-over disabled, another
// window size, a request exactly on a grid instant (closure of the edges is open), a clock
// reading that went back, two spellings of the header value, or an instant within a day
// of the configured renew day (time zone of Day() is the process's).
type spillTrack struct {
	started bool
	dead    bool
	w       int64
	win     int64 // floor(now / w) of the window being counted
	passed  int64 // requests that proceeded in it
	allowed int64 // allowed count of the last request seen
	lo, hi  int64 // carried-over budget
	fine    string
}

// how many requests were judged with spill-over enabled / with a determined non-zero
// carried-over amount (reported in the distribution: the monitor is not vacuous there)
var spillJudged, spillJudgedCarry int

func min64(a, b int64) int64 {
	if a < b {
		return a
	}
	return b
}

func max64(a, b int64) int64 {
	if a > b {
		return a
	}
	return b
}

func nearRenewDay(now int64, renew int) bool {
	if renew < 1 || renew > 31 {
		return false
	}
	for d := int64(-1); d <= 1; d++ {
		if time.Unix(0, now+d*86400*int64(time.Second)).UTC().Day() == renew {
			return true
		}
	}
	return false
}

// one request handled with spill-over enabled; returns the issue texts ("" = none)
func (g *groupState) spillStep(r rec) (over, unjust string) {
	t := &g.sp
	if t.dead {
		return
	}
	if g.dead || g.plain || r.now <= 0 || r.now%r.w == 0 || nearRenewDay(r.now, r.renew) ||
		(t.started && (t.w != r.w || t.fine != r.fine)) {
		t.dead = true
		return
	}
	k := floorDiv(r.now, r.w)
	if !t.started {
		*t = spillTrack{started: true, w: r.w, win: k, allowed: r.allowed, fine: r.fine}
	} else if k < t.win {
		t.dead = true
		return
	} else if k > t.win {
		t.lo += min64(t.allowed, r.allowed) - t.passed
		t.hi += max64(t.allowed, r.allowed) - t.passed
		if idle := k - t.win - 1; idle > 0 {
			t.lo += idle * min64(0, min64(t.allowed, r.allowed))
			t.hi += idle * max64(0, max64(t.allowed, r.allowed))
		}
		t.win, t.passed = k, 0
	}
	t.allowed = r.allowed
	spillJudged++
	if t.lo == t.hi && t.lo != 0 {
		spillJudgedCarry++
	}
	limHi := exactShare(r.allowed+t.hi, r.e4hi)
	limLo := exactShare(r.allowed+t.lo, r.e4lo)
	carry := fmt.Sprintf("%d", t.lo)
	if t.lo != t.hi {
		carry = fmt.Sprintf("%d..%d", t.lo, t.hi)
	}
	if r.pass {
		if t.passed >= limHi {
			over = fmt.Sprintf(
				"call #%d of %s at %d ns proceeded as number %d of its window (%d,%d): allowed %d + carried over %d at %s%% gives at most %d",
				r.idx, r.fine, r.now, t.passed+1, k*r.w, (k+1)*r.w, r.allowed, t.hi, pctString(r.e4hi), limHi)
		}
		t.passed++
	} else if t.passed < limLo {
		unjust = fmt.Sprintf(
			"call #%d of %s at %d ns rejected with %d used in its window (%d,%d): allowed %d + carried over %s at %s%% gives a share of %d",
			r.idx, r.fine, r.now, t.passed, k*r.w, (k+1)*r.w, r.allowed, carry, pctString(r.e4lo), limLo)
	}
	return
}

type verdictIssue struct {
	idx   int
	text  string
	stale bool // an earlier request of the group had spill-over enabled
}

func (g *groupState) observeWindow(now, w int64) {
	if g.seen && g.curW != w {
		e := floorDiv(g.lastT, g.curW)*g.curW + g.curW
		if !g.stale || e > g.staleEnd {
			g.staleEnd, g.stale = e, true
		}
	}
	g.curW, g.lastT, g.seen = w, now, true
}

// replays the calls and returns over-admissions under right-closed windows, under
// left-closed windows, and unjustified rejections
// plus, for requests handled with spill-over enabled (see spillTrack), over-admissions
// and unjustified rejections against ceil((allowed + carried over) * pct/100)
func judgeAll(recs []rec) (overR, overL, unjust, overS, unjustS []verdictIssue) {
	gs := map[string]*groupState{}
	for _, r := range recs {
		if r.peek {
			for _, g := range gs {
				if g.seen && r.now > g.lastT {
					g.lastT = r.now
				}
			}
			continue
		}
		g := gs[r.coarse]
		if g == nil {
			g = &groupState{}
			gs[r.coarse] = g
		}
		if !r.judge || r.w <= 0 {
			g.dead = true // nothing definite follows for this group
			if r.pass {
				g.passes = append(g.passes, passRec{r.now, r.fine})
			}
			if r.w > 0 {
				g.observeWindow(r.now, r.w)
			}
			continue
		}
		if r.spill {
			// judged against the budget including what was carried over, where that amount
			// is determined (spillStep); remembered for the stale-spill-over classifier
			g.spilled = true
			if ov, un := g.spillStep(r); ov != "" {
				overS = append(overS, verdictIssue{r.idx, ov, false})
			} else if un != "" {
				unjustS = append(unjustS, verdictIssue{r.idx, un, false})
			}
			if r.pass {
				g.passes = append(g.passes, passRec{r.now, r.fine})
			}
			g.observeWindow(r.now, r.w)
			continue
		}
		g.observeWindow(r.now, r.w)
		g.plain = true

		fl := floorDiv(r.now, r.w) * r.w
		lbL := fl // left-closed window [fl, fl+w)
		lbR := fl // right-closed window (lbR, lbR+w]
		lbC := fl // closed cell
		if r.now == fl {
			lbR = fl - r.w
			lbC = fl - r.w
		}
		settled := !g.dead && (!g.stale || g.staleEnd <= lbC)
		if settled {
			var nR, nL, nC int64
			for _, p := range g.passes {
				if p.fine == r.fine {
					if p.t > lbR {
						nR++
					}
					if p.t >= lbL {
						nL++
					}
				}
				if p.t >= lbC {
					nC++
				}
			}
			if r.pass {
				if nR >= r.hi {
					overR = append(overR, verdictIssue{r.idx, fmt.Sprintf(
						"call #%d of %s at %d ns proceeded as number %d of its window (%d,%d], share %d",
						r.idx, r.fine, r.now, nR+1, lbR, lbR+r.w, r.hi), g.spilled})
				}
				if nL >= r.hi {
					overL = append(overL, verdictIssue{r.idx, fmt.Sprintf(
						"call #%d of %s at %d ns proceeded as number %d of its window [%d,%d), share %d",
						r.idx, r.fine, r.now, nL+1, lbL, lbL+r.w, r.hi), g.spilled})
				}
			} else if nC < r.lo {
				unjust = append(unjust, verdictIssue{r.idx, fmt.Sprintf(
					"call #%d of %s at %d ns rejected with %d of %d used in [%d,%d]",
					r.idx, r.coarse, r.now, nC, r.lo, lbC, fl+r.w), g.spilled})
			}
		}
		if r.pass {
			g.passes = append(g.passes, passRec{r.now, r.fine})
		}
	}
	return
}

const staleSpillSig = "stale-spillover:TryToIncrement"

func splitStale(is []verdictIssue) (plain, stale []verdictIssue) {
	for _, i := range is {
		if i.stale {
			stale = append(stale, i)
		} else {
			plain = append(plain, i)
		}
	}
	return
}

func verdictHits(recs []rec, kase any, site string) []c.Hit {
	var hits []c.Hit
	allR, allL, allU, overS, unjustS := judgeAll(recs)
	if len(overS) > 0 {
		hits = append(hits, c.Hit{
			Signature: "over-admission:" + site,
			Demanded:  "with spill-over enabled at most ceil((allowed + carried-over budget) * pct/100) requests of a (remedy, group) proceed per grid window, the percentage being the one in force when the request is handled",
			Observed:  overS[0].text,
			Case:      kase,
		})
	}
	if len(unjustS) > 0 {
		hits = append(hits, c.Hit{
			Signature: "unjustified-rejection:" + site,
			Demanded:  "handled one at a time, a request is rejected only if its group's share ceil((allowed + carried-over budget) * pct/100) of the current window is used up",
			Observed:  unjustS[0].text,
			Case:      kase,
		})
	}
	overR, staleR := splitStale(allR)
	overL, staleL := splitStale(allL)
	unjust, staleU := splitStale(allU)
	if len(staleR) > 0 && len(staleL) > 0 {
		hits = append(hits, c.Hit{
			Signature: staleSpillSig,
			Demanded:  "with spill-over disabled at most ceil(allowed*pct/100) requests of a (remedy, group) proceed per grid window (either closure), also after spill-over was enabled earlier",
			Observed:  "(" + site + ") " + staleR[0].text + "; " + staleL[0].text,
			Case:      kase,
		})
	} else if len(staleU) > 0 {
		hits = append(hits, c.Hit{
			Signature: staleSpillSig,
			Demanded:  "with spill-over disabled a request is rejected only if its group's nominal share of the current window is used up, also after spill-over was enabled earlier",
			Observed:  "(" + site + ") " + staleU[0].text,
			Case:      kase,
		})
	}
	if len(overR) > 0 && len(overL) > 0 && len(overS) == 0 {
		hits = append(hits, c.Hit{
			Signature: "over-admission:" + site,
			Demanded:  "at most ceil(allowed*pct/100) requests of a (remedy, group) proceed per grid window (either closure)",
			Observed:  overR[0].text + "; " + overL[0].text,
			Case:      kase,
		})
	}
	if len(unjust) > 0 && len(unjustS) == 0 {
		hits = append(hits, c.Hit{
			Signature: "unjustified-rejection:" + site,
			Demanded:  "handled one at a time, a request is rejected only if its group's share of the current window is used up",
			Observed:  unjust[0].text,
			Case:      kase,
		})
	}
	return hits
}

// ---------------------------------------------------------------- suites

func monitorLimit(k *LimitCase) []c.Hit {
	if k.PctE4 < 0 {
		return nil
	}
	want := exactShare(k.Total, k.PctE4)
	if int64(k.N) < want {
		want = int64(k.N)
	}
	if int64(k.Passed) == want {
		return nil
	}
	sig := "unjustified-rejection:limit"
	if int64(k.Passed) > want {
		sig = "over-admission:limit"
	}
	return []c.Hit{{
		Signature: sig,
		Demanded: fmt.Sprintf("of %d requests in one window exactly %d proceed: allowed %d scaled by %s%%, rounded up",
			k.N, want, k.Total, pctString(k.PctE4)),
		Observed: fmt.Sprintf("%d proceeded", k.Passed),
		Case:     k,
	}}
}

func pctString(e4 int64) string {
	s := fmt.Sprintf("%d.%04d", e4/10000, e4%10000)
	s = strings.TrimRight(s, "0")
	return strings.TrimSuffix(s, ".")
}

func monitorHist(k *HistCase) []c.Hit {
	var recs []rec
	var hits []c.Hit
	if k.ColFail > 0 {
		hits = append(hits, c.Hit{Signature: "collection-failed:limit",
			Demanded: "RateLimitState.Counters() returns",
			Observed: fmt.Sprintf("%d Counters() call(s) panicked", k.ColFail), Case: k})
	}
	oi := 0
	for i, op := range k.Ops {
		if op.Peek {
			recs = append(recs, rec{idx: i, now: op.Now, peek: true})
			continue
		}
		obs := k.Observed[oi]
		oi++
		key, p := k.Keys[op.Key], k.Profiles[op.Prof]
		valid := key.Limiter != "" && !(key.Grouped && key.Group == "")
		if !valid {
			if obs != 2 {
				hits = append(hits, c.Hit{Signature: "invalid-key-accepted:limit",
					Demanded: "a call without remedy name / group id is refused with an error",
					Observed: fmt.Sprintf("call #%d returned verdict code %d", i, obs), Case: k})
			}
			continue
		}
		if obs != 0 && obs != 1 {
			if p.W > 0 {
				hits = append(hits, c.Hit{Signature: "no-verdict:limit",
					Demanded: "a well-formed call gets Proceed or Block",
					Observed: fmt.Sprintf("call #%d returned verdict code %d", i, obs), Case: k})
			}
			continue
		}
		id := fmt.Sprintf("%q/%v/%q", key.Limiter, key.Grouped, key.Group)
		r := rec{idx: i, fine: id, coarse: id, now: op.Now, w: p.W, pass: obs == 1,
			judge: p.PctE4 >= 0, spill: p.Spill,
			allowed: p.Allowed, e4lo: p.PctE4, e4hi: p.PctE4, renew: p.Renew}
		if r.judge {
			r.lo = exactShare(p.Allowed, p.PctE4)
			r.hi = r.lo
		}
		recs = append(recs, r)
	}
	return append(hits, verdictHits(recs, k, "limit")...)
}

func monitorPlugin(k *PluginCase) []c.Hit { return monitorPluginSite(k, "plugin", k) }

// the same judgement for any sequence of OnRequest calls given in the order in which
// they were decided (site = call-site part of the signatures, kase = what is reported)
func monitorPluginSite(k *PluginCase, site string, kase any) []c.Hit {
	var recs []rec
	var hits []c.Hit
	add := func(sig, dem, obs string) {
		hits = append(hits, c.Hit{Signature: sig + ":" + site, Demanded: dem, Observed: obs, Case: kase})
	}
	for i, rq := range k.Reqs {
		rm := k.Remedies[rq.Remedy]
		obs := k.Observed[i]
		status := rm.Status
		if status == 0 {
			status = 429
		}
		if rm.Name == "" {
			continue // not a configuration the statement speaks about (refused with an error)
		}
		if rm.WindowS <= 0 {
			// not a configuration the statement speaks about either, but the call reaches
			// the group's counter: nothing is demanded of that group from here on
			id := fmt.Sprintf("%q/ungrouped", rm.Name)
			co := id
			if rm.Gqa != nil {
				v := rq.Headers[rm.Gqa.Header]
				id = fmt.Sprintf("%q/%q/%q", rm.Name, rm.Gqa.Header, v)
				co = fmt.Sprintf("%q/%q/%q", rm.Name, strings.ToLower(rm.Gqa.Header), strings.TrimSpace(v))
			}
			recs = append(recs, rec{idx: i, fine: id, coarse: co, now: rq.Now, w: 0, pass: obs == 0})
			continue
		}
		if obs < 0 {
			add("no-verdict", "a request gets NoOp or the early response",
				fmt.Sprintf("request #%d: code %d", i, obs))
			continue
		}
		if obs > 0 && obs != status {
			add("wrong-status", fmt.Sprintf("rejections carry the configured status %d", status),
				fmt.Sprintf("request #%d rejected with %d", i, obs))
			continue
		}
		r := rec{idx: i, now: rq.Now, w: int64(rm.WindowS) * sec, pass: obs == 0, judge: true, spill: rm.Spill,
			allowed: rm.Allowed, e4lo: 1000000, e4hi: 1000000, renew: rm.Renew}
		if rm.Gqa == nil {
			r.fine = fmt.Sprintf("%q/ungrouped", rm.Name)
			r.coarse = r.fine
			r.lo = exactShare(rm.Allowed, 1000000)
			r.hi = r.lo
			recs = append(recs, r)
			continue
		}
		g := rm.Gqa
		v, found := rq.Headers[g.Header]
		if !found {
			for n := range rq.Headers {
				if strings.EqualFold(n, g.Header) {
					r.judge = false // header present under another spelling: text is silent
				}
			}
		}
		r.fine = fmt.Sprintf("%q/%q/%q", rm.Name, g.Header, v)
		r.coarse = fmt.Sprintf("%q/%q/%q", rm.Name, strings.ToLower(g.Header), strings.TrimSpace(v))
		first := true
		for _, a := range g.Groups {
			if a.Value == v {
				s := exactShare(rm.Allowed, a.PctE4)
				if first || s < r.lo {
					r.lo = s
				}
				if first || s > r.hi {
					r.hi = s
				}
				if first || a.PctE4 < r.e4lo {
					r.e4lo = a.PctE4
				}
				if first || a.PctE4 > r.e4hi {
					r.e4hi = a.PctE4
				}
				first = false
			}
		}
		if first { // value not in the table: default behaviour
			switch g.Default {
			case "allow":
				if obs != 0 {
					add("default-behaviour", "default allow: requests of unlisted groups proceed",
						fmt.Sprintf("request #%d (value %q) got status %d", i, v, obs))
				}
				continue
			case "block":
				if obs == 0 {
					add("default-behaviour", "default block: requests of unlisted groups are rejected",
						fmt.Sprintf("request #%d (value %q) proceeded", i, v))
				}
				continue
			case "use_default_allocation":
				r.lo = exactShare(rm.Allowed, g.DefPctE4)
				r.hi = r.lo
				r.e4lo, r.e4hi = g.DefPctE4, g.DefPctE4
			default:
				continue
			}
		}
		recs = append(recs, r)
	}
	return append(hits, verdictHits(recs, kase, site)...)
}
