// C09 harness: policy-mode (strategy based) throttling.
//
// Drives the real code at three levels with a deterministic clock:
//
//	limit   limit.RateLimitState.TryToIncrement, n calls at one instant on a fresh key:
//	        how many proceed = the limit for (allowed, ratio)
//	hist    histories on the package API (several keys, window data changing between
//	        calls, Counters() calls in between, instants at k*W-1, k*W, k*W+1 ns)
//	plugin  StrategyBasedThrottlingPlugin.OnRequest (group header values, allocation
//	        tables with every default behaviour, status codes, config changes)
//	overlap OnRequest goroutines and quota_used gauge callbacks (RateLimitState.Counters())
//	        that really overlap, as forced schedules (overlap.go, overlap_gen.go)
//
// Observables: Proceed / Block / error / panic, and at plugin level NoOp vs early
// response with its status.  monitor.go restates the property over them.
package main

import (
	"context"
	"encoding/json"
	"fmt"
	"math"
	"os"
	"sort"
	"strconv"
	"strings"
	"sync"
	"time"

	"lunar/engine/actions"
	"lunar/engine/config"
	lunarMessages "lunar/engine/messages"
	"lunar/engine/services/remedies"
	"lunar/engine/utils"
	"lunar/engine/utils/limit"
	"lunar/engine/utils/obfuscation"
	sharedConfig "lunar/shared-model/config"
	"lunar/toolkit-core/logging"

	"github.com/rs/zerolog"

	c "verifharness/common"
)

// ---------------------------------------------------------------- clock

type fakeClock struct {
	mu  sync.Mutex
	now int64
}

func (f *fakeClock) set(ns int64) { f.mu.Lock(); f.now = ns; f.mu.Unlock() }
func (f *fakeClock) Now() time.Time {
	f.mu.Lock()
	defer f.mu.Unlock()
	return time.Unix(0, f.now).UTC()
}
func (f *fakeClock) Sleep(time.Duration) {}
func (f *fakeClock) After(time.Duration) <-chan time.Time {
	ch := make(chan time.Time, 1)
	ch <- f.Now()
	return ch
}
func (f *fakeClock) Since(t time.Time) time.Duration { return f.Now().Sub(t) }
func (f *fakeClock) Until(t time.Time) time.Duration { return t.Sub(f.Now()) }

// ---------------------------------------------------------------- cases

// a percentage is generated as a decimal with four places (PctE4 = pct * 10^4) and
// handed to the code as the float64 a YAML reader would produce for that decimal
func pctFloat(e4 int64) float64 {
	f, err := strconv.ParseFloat(fmt.Sprintf("%d.%04d", e4/10000, e4%10000), 64)
	if err != nil {
		panic(err)
	}
	return f
}

type LimitCase struct {
	Total     int64  `json:"allowed"`
	PctE4     int64  `json:"pct_e4"` // -1: raw ratio bit pattern, no decimal meaning
	RatioBits uint64 `json:"ratio_bits"`
	N         int    `json:"requests"`
	Passed    int    `json:"proceeded"`
}

type Profile struct {
	W         int64  `json:"window_ns"`
	Allowed   int64  `json:"allowed"`
	PctE4     int64  `json:"pct_e4"`
	RatioBits uint64 `json:"ratio_bits"`
	Spill     bool   `json:"spillover"`
	Renew     int    `json:"renew_on_day"`
}
type Key struct {
	Limiter string `json:"limiter"`
	Grouped bool   `json:"grouped"`
	Group   string `json:"group"`
}
type Op struct {
	Now  int64 `json:"now_ns"`
	Peek bool  `json:"counters,omitempty"`
	Key  int   `json:"key"`
	Prof int   `json:"profile"`
}
type HistCase struct {
	Profiles []Profile `json:"profiles"`
	Keys     []Key     `json:"keys"`
	Ops      []Op      `json:"ops"`
	Observed []int     `json:"observed"` // per non-Counters op: 0 Block 1 Proceed 2 error 3 panic
	ColFail  int       `json:"counters_calls_that_panicked,omitempty"`
}

type Alloc struct {
	Value string `json:"value"`
	PctE4 int64  `json:"pct_e4"`
}
type Gqa struct {
	Header   string  `json:"header"`
	Groups   []Alloc `json:"groups"`
	Default  string  `json:"default"`
	DefPctE4 int64   `json:"default_pct_e4"`
}
type Remedy struct {
	Name    string `json:"name"`
	Allowed int64  `json:"allowed"`
	WindowS int    `json:"window_s"`
	Status  int    `json:"status"`
	Spill   bool   `json:"spillover"`
	Renew   int    `json:"renew_on_day"`
	Gqa     *Gqa   `json:"group_quota_allocation"`
}
type Req struct {
	Now     int64             `json:"now_ns"`
	Remedy  int               `json:"remedy"`
	Headers map[string]string `json:"headers"`
}
type PluginCase struct {
	Remedies []Remedy `json:"remedies"`
	Reqs     []Req    `json:"requests"`
	Observed []int    `json:"observed"` // 0 NoOp, s>0 early response status, -1 error, -2 panic
}

// ---------------------------------------------------------------- execution on the implementation

func newState(clk *fakeClock) limit.IncrementableRateLimitState {
	return limit.NewRateLimitState(clk, logging.ContextLogger{})
}

func tryInc(st limit.IncrementableRateLimitState, k Key, p Profile) (code int) {
	defer func() {
		if r := recover(); r != nil {
			code = 3
		}
	}()
	g := limit.Ungrouped
	if k.Grouped {
		g = limit.Grouped
	}
	res, err := st.TryToIncrement(
		limit.RequestArguments{LimiterID: k.Limiter, Grouping: g, GroupID: k.Group},
		limit.WindowData{
			WindowSize: time.Duration(p.W), AllowedRequestCount: p.Allowed,
			QuotaAllocationRatio: math.Float64frombits(p.RatioBits),
			SpilloverEnabled:     p.Spill, SpilloverRenewOnDay: p.Renew,
		})
	if err != nil {
		return 2
	}
	if res.LimitSate == limit.Proceed {
		return 1
	}
	return 0
}

func execLimit(k *LimitCase) {
	clk := &fakeClock{now: 1_700_000_000_123_456_789}
	st := newState(clk)
	p := Profile{W: int64(time.Second), Allowed: k.Total, RatioBits: k.RatioBits}
	key := Key{Limiter: "r"}
	k.Passed = 0
	for i := 0; i < k.N; i++ {
		if tryInc(st, key, p) == 1 {
			k.Passed++
		}
	}
}

func execHist(k *HistCase) {
	clk := &fakeClock{}
	st := newState(clk)
	k.Observed = nil
	k.ColFail = 0
	for _, op := range k.Ops {
		clk.set(op.Now)
		if op.Peek {
			func() {
				defer func() {
					if r := recover(); r != nil {
						k.ColFail++
					}
				}()
				st.Counters()
			}()
			continue
		}
		k.Observed = append(k.Observed, tryInc(st, k.Keys[op.Key], k.Profiles[op.Prof]))
	}
}

func remedyConfig(r Remedy) config.ScopedRemedy {
	cfg := &sharedConfig.StrategyBasedThrottlingConfig{
		AllowedRequestCount: r.Allowed,
		WindowSizeInSeconds: r.WindowS,
		ResponseStatusCode:  r.Status,
		SpilloverConfig:     sharedConfig.SpilloverConfig{Enabled: r.Spill, RenewOnDay: r.Renew},
	}
	if r.Gqa != nil {
		g := &sharedConfig.GroupQuotaAllocation{
			GroupBy:                     &sharedConfig.GroupBy{HeaderName: r.Gqa.Header},
			Default:                     r.Gqa.Default,
			DefaultAllocationPercentage: pctFloat(r.Gqa.DefPctE4),
		}
		for _, a := range r.Gqa.Groups {
			g.Groups = append(g.Groups, sharedConfig.QuotaAllocation{
				GroupHeaderValue: a.Value, AllocationPercentage: pctFloat(a.PctE4),
			})
		}
		cfg.GroupQuotaAllocation = g
	}
	return config.ScopedRemedy{
		Scope: utils.ScopeEndpoint, Method: "GET", NormalizedURL: "verif.test/c09",
		Remedy: &sharedConfig.Remedy{
			Enabled: true, Name: r.Name,
			Config: sharedConfig.RemedyConfig{StrategyBasedThrottling: cfg},
		},
	}
}

func onRequest(p *remedies.StrategyBasedThrottlingPlugin, req lunarMessages.OnRequest,
	sr config.ScopedRemedy,
) (code int) {
	defer func() {
		if r := recover(); r != nil {
			code = -2
		}
	}()
	act, err := p.OnRequest(req, sr)
	if err != nil {
		return -1
	}
	switch a := act.(type) {
	case *actions.NoOpAction:
		return 0
	case *actions.EarlyResponseAction:
		return a.Status
	}
	return -3
}

func execPlugin(k *PluginCase) {
	clk := &fakeClock{}
	st := newState(clk)
	// the obfuscator wired in services.go for this plugin is the identity one
	p, err := remedies.NewStrategyBasedThrottlingPlugin(context.Background(), clk, nil, st,
		obfuscation.Obfuscator{Hasher: obfuscation.IdentityHasher{}})
	if err != nil {
		panic(err)
	}
	srs := make([]config.ScopedRemedy, len(k.Remedies))
	for i, r := range k.Remedies {
		srs[i] = remedyConfig(r)
	}
	k.Observed = nil
	for i, rq := range k.Reqs {
		clk.set(rq.Now)
		req := lunarMessages.OnRequest{
			ID: strconv.Itoa(i), SequenceID: strconv.Itoa(i), Method: "GET", Scheme: "https",
			URL: "verif.test/c09", Path: "/c09", Headers: rq.Headers, Time: clk.Now(),
		}
		k.Observed = append(k.Observed, onRequest(p, req, srs[rq.Remedy]))
	}
}

// ---------------------------------------------------------------- Coq terms

func zu(u uint64) string { return strconv.FormatUint(u, 10) }
func ints(xs []int) string {
	return c.MapList(xs, func(x int) string { return c.Z(int64(x)) })
}

func coqLimit(k *LimitCase) string {
	h := int64(-1)
	if k.PctE4 >= 0 && k.PctE4%100 == 0 && k.RatioBits == ratioBitsOfPct(k.PctE4) {
		h = k.PctE4 / 100
	}
	return "(mk_limit " + c.Z(k.Total) + " " + zu(k.RatioBits) + " " + c.Z(int64(k.N)) + " " + c.Z(int64(k.Passed)) + " " + c.Z(h) + ")"
}

// strings are bound once per case (let s0 : list Z := ... in) and referred to by
// name: Coq elaborates large literals slowly
type strtab struct {
	idx  map[string]int
	defs []string
}

func (t *strtab) ref(s string) string {
	if t.idx == nil {
		t.idx = map[string]int{}
	}
	i, ok := t.idx[s]
	if !ok {
		i = len(t.defs)
		t.idx[s] = i
		t.defs = append(t.defs, c.Bytes(s))
	}
	return "s" + strconv.Itoa(i)
}

func (t *strtab) wrap(body string) string {
	var sb strings.Builder
	sb.WriteString("(")
	for i, d := range t.defs {
		sb.WriteString("let s" + strconv.Itoa(i) + " : list Z := " + d + " in ")
	}
	sb.WriteString(body + ")")
	return sb.String()
}

func coqHist(k *HistCase) string {
	var t strtab
	base := int64(0)
	if len(k.Ops) > 0 {
		base = k.Ops[0].Now
	}
	profs := c.MapList(k.Profiles, func(p Profile) string {
		return "mk_profile " + c.Z(p.W) + " " + c.Z(p.Allowed) + " " + zu(p.RatioBits) + " " + c.B(p.Spill) + " " + c.Z(int64(p.Renew))
	})
	keys := ""
	for i, key := range k.Keys {
		keys += "let k" + strconv.Itoa(i) + " := mk_key " + t.ref(key.Limiter) + " " + c.B(key.Grouped) + " " + t.ref(key.Group) + " in "
	}
	ops := c.MapList(k.Ops, func(o Op) string {
		if o.Peek {
			return "HPeek " + c.Z(o.Now-base)
		}
		return "HInc " + c.Z(o.Now-base) + " k" + strconv.Itoa(o.Key) + " " + c.Nat(o.Prof)
	})
	return t.wrap(keys + "mk_hist " + c.Z(base) + " " + profs + " " + ops + " " + ints(k.Observed))
}

func pctBits(e4 int64) string { return zu(math.Float64bits(pctFloat(e4))) }

func coqPlugin(k *PluginCase) string {
	var t strtab
	base := int64(0)
	if len(k.Reqs) > 0 {
		base = k.Reqs[0].Now
	}
	rems := c.MapList(k.Remedies, func(r Remedy) string {
		g := "None"
		if r.Gqa != nil {
			g = "(Some (mk_gqa " + t.ref(r.Gqa.Header) + " " +
				c.MapList(r.Gqa.Groups, func(a Alloc) string {
					return "mk_alloc " + t.ref(a.Value) + " " + pctBits(a.PctE4)
				}) + " " + t.ref(r.Gqa.Default) + " " + pctBits(r.Gqa.DefPctE4) + "))"
		}
		return "mk_remedy " + t.ref(r.Name) + " " + c.Z(r.Allowed) + " " + c.Z(int64(r.WindowS)) + " " +
			c.Z(int64(r.Status)) + " " + c.B(r.Spill) + " " + c.Z(int64(r.Renew)) + " " + g
	})
	reqs := c.MapList(k.Reqs, func(r Req) string {
		names := make([]string, 0, len(r.Headers))
		for n := range r.Headers {
			names = append(names, n)
		}
		sort.Strings(names)
		return "mk_req " + c.Z(r.Now-base) + " " + c.Nat(r.Remedy) + " " + c.MapList(names, func(n string) string {
			return "mk_hdr " + t.ref(n) + " " + t.ref(r.Headers[n])
		})
	})
	return t.wrap("mk_plugin " + c.Z(base) + " " + rems + " " + reqs + " " + ints(k.Observed))
}

// ---------------------------------------------------------------- running one case

func runLimit(o *c.Out, k LimitCase) {
	execLimit(&k)
	idx := o.Case("limit", coqLimit(&k), k, k.Passed > 0 && k.Passed < k.N)
	o.Count("limit")
	o.MonitorChecked(1)
	for _, h := range monitorLimit(&k) {
		h.Suite, h.Index = "limit", idx
		o.Hit(h)
	}
}

func countSpillJudged(o *c.Out, before, beforeCarry int) {
	if spillJudged > before {
		o.Count("monitor:case-with-requests-judged-under-spill-over")
	}
	if spillJudgedCarry > beforeCarry {
		o.Count("monitor:case-with-requests-judged-against-a-nonzero-carried-over-budget")
	}
}

func countObs(xs []int, f func(int) bool) (n int) {
	for _, x := range xs {
		if f(x) {
			n++
		}
	}
	return
}

func runHist(o *c.Out, k HistCase) {
	execHist(&k)
	blocks := countObs(k.Observed, func(x int) bool { return x == 0 })
	passes := countObs(k.Observed, func(x int) bool { return x == 1 })
	rolled := false
	first := map[int]int64{}
	for _, op := range k.Ops {
		if op.Peek {
			continue
		}
		w := k.Profiles[op.Prof].W
		if w <= 0 {
			continue
		}
		if f, ok := first[op.Key]; ok && op.Now/w != f/w {
			rolled = true
		} else if !ok {
			first[op.Key] = op.Now
		}
	}
	idx := o.Case("hist", coqHist(&k), k, blocks > 0 && passes > 0 && rolled)
	o.Count(fmt.Sprintf("hist:keys=%d", len(k.Keys)))
	o.Count(fmt.Sprintf("hist:profiles=%d", len(k.Profiles)))
	if blocks > 0 {
		o.Count("hist:with-block")
	}
	if rolled {
		o.Count("hist:with-rollover")
	}
	o.MonitorChecked(1)
	defer countSpillJudged(o, spillJudged, spillJudgedCarry)
	for _, h := range monitorHist(&k) {
		h.Suite, h.Index = "hist", idx
		o.Hit(h)
	}
}

func runPlugin(o *c.Out, k PluginCase) {
	execPlugin(&k)
	early := countObs(k.Observed, func(x int) bool { return x > 0 })
	noop := countObs(k.Observed, func(x int) bool { return x == 0 })
	idx := o.Case("plugin", coqPlugin(&k), k, early > 0 && noop > 0)
	o.Count(fmt.Sprintf("plugin:remedies=%d", len(k.Remedies)))
	if early > 0 {
		o.Count("plugin:with-rejection")
	}
	o.MonitorChecked(1)
	defer countSpillJudged(o, spillJudged, spillJudgedCarry)
	for _, h := range monitorPlugin(&k) {
		h.Suite, h.Index = "plugin", idx
		o.Hit(h)
	}
}

// ---------------------------------------------------------------- generators

const sec = int64(time.Second)
const day = 86400 * sec

func ratioBitsOfPct(e4 int64) uint64 { return math.Float64bits(pctFloat(e4) / 100) }

// moves the clock: same instant, +1 ns, around the next grid boundary of w, whole
// windows, several windows, somewhere inside
func nextInstant(r *c.Rng, t, w int64) int64 {
	if w <= 0 {
		w = sec
	}
	b := (t/w + 1) * w
	var n int64
	switch r.Intn(12) {
	case 0, 1:
		n = t
	case 2:
		n = t + 1
	case 3:
		n = b - 1
	case 4, 5:
		n = b
	case 6:
		n = b + 1
	case 7:
		n = t + w
	case 8:
		n = t + w + int64(r.Range(-1, 1))
	case 9:
		n = b + w*int64(r.Range(1, 3)) + int64(r.Range(-1, 1))
	default:
		n = t + int64(r.Next()%uint64(w))
	}
	if n < t {
		n = t
	}
	return n
}

var niceE4 = []int64{0, 1, 5000, 10000, 70000, 100000, 125000, 250000, 333300, 333333, 500000,
	666667, 750000, 1000000, 1500000, 30000, 290000, 570000, 580000, 1, 9999}

func genLimit(o *c.Out) {
	r := o.Rng.Fork(1)
	run := func(total, e4 int64) {
		k := LimitCase{Total: total, PctE4: e4, RatioBits: ratioBitsOfPct(e4)}
		exact := total * e4 / 1000000
		n := exact + 3
		if n < 3 {
			n = 3
		}
		if n > 4000 {
			n = 4000
		}
		k.N = int(n)
		runLimit(o, k)
	}
	// the committed witness first, then whole percentages x small totals (every
	// case where total*pct/100 is an integer is a candidate for a float excess)
	run(100, 70000)
	for _, total := range []int64{100, 1000, 25, 40, 50, 200, 300, 7, 1} {
		for pct := int64(0); pct <= 100; pct++ {
			if !o.Thorough() && total != 100 && total != 1000 && pct%3 != 0 {
				continue
			}
			run(total, pct*10000)
		}
	}
	for i := 0; i < o.Scale(1500, 30000, 20000); i++ {
		var total, e4 int64
		switch r.Intn(5) {
		case 4: // three decimals; product a whole number when total is a multiple of 1000
			total = int64(r.Range(1, 30)) * c.Pick(r, []int64{1, 10, 1000})
			e4 = int64(r.Range(0, 100000)) * 10
		case 0: // product is a whole number: pct with two decimals, total a multiple of 100
			total = int64(r.Range(1, 30)) * 100
			e4 = int64(r.Range(0, 10000)) * 100
		case 1: // product a whole number by construction: total*e4 divisible by 10^6
			e4 = int64(r.Range(1, 400)) * 2500
			total = int64(r.Range(1, 50)) * 400
		case 2:
			total = int64(r.Range(0, 3000))
			e4 = c.Pick(r, niceE4)
		default:
			total = int64(r.Range(-2, 3000))
			e4 = int64(r.Range(0, 1200000))
		}
		run(total, e4)
	}
	// raw bit patterns (no decimal meaning; correspondence only): specials, neighbours
	// of decimals, values next to .5 billionths
	raws := []uint64{
		0, 1 << 63, math.Float64bits(math.NaN()), math.Float64bits(math.Inf(1)), math.Float64bits(math.Inf(-1)),
		math.Float64bits(1), math.Float64bits(-0.5), math.Float64bits(1e-320), math.Float64bits(5e-10),
		math.Float64bits(4.9999999999e-10), math.Float64bits(1e300), math.Float64bits(9.3e9), math.Float64bits(1e10),
	}
	for i := 0; i < o.Scale(300, 5000, 3000); i++ {
		b := math.Float64bits(pctFloat(int64(r.Range(0, 1000000))) / 100)
		switch r.Intn(4) {
		case 0:
			b += uint64(r.Range(1, 3))
		case 1:
			b -= uint64(r.Range(1, 3))
		case 2:
			b = math.Float64bits((float64(r.Range(0, 2000000000)) + 0.5) / 1e9)
			b += uint64(r.Range(0, 2)) - 1
		case 3:
			b = r.Next()
		}
		raws = append(raws, b)
	}
	// a few billionths, just below / at / just above a half: only a count of the order
	// of 10^9 makes the rounding of the ratio itself visible
	for kk := 0; kk <= 12; kk++ {
		for d := -1; d <= 1; d++ {
			b := math.Float64bits((float64(kk)+0.5)/1e9) + uint64(d)
			for _, total := range []int64{1_000_000_000, 3_000_000_000, 1_000_000_001} {
				runLimit(o, LimitCase{Total: total, PctE4: -1, RatioBits: b, N: 45})
			}
		}
	}
	for _, b := range raws {
		total := int64(c.Pick(r, []int{0, 1, 3, 10, 100, 1000, 12345}))
		runLimit(o, LimitCase{Total: total, PctE4: -1, RatioBits: b, N: 40})
	}
}

var histWindows = []int64{1, 2, 3, 7, 10, 1000, sec, sec, 60 * sec, 3600 * sec, day}

func genHistCase(r *c.Rng) HistCase {
	var k HistCase
	limiters := []string{"A", "B", "A", "remedy one", ""}
	groups := []string{"g1", "g2", "x-group:a", ""}
	nk := r.Range(1, 4)
	for i := 0; i < nk; i++ {
		key := Key{Limiter: c.Pick(r, limiters[:4]), Grouped: r.Bool()}
		if key.Grouped {
			key.Group = c.Pick(r, groups[:3])
		} else if r.Chance(1, 3) {
			key.Group = c.Pick(r, groups[:3])
		}
		if r.Chance(1, 25) {
			key.Limiter = ""
		}
		if r.Chance(1, 25) {
			key.Group = ""
		}
		k.Keys = append(k.Keys, key)
	}
	w := c.Pick(r, histWindows)
	spill := r.Chance(1, 4)
	// start: near the epoch (first-window special cases) or far from it; a multiple of
	// the window size or not
	var t int64
	switch r.Intn(5) {
	case 0:
		t = int64(r.Range(0, 2))
	case 1:
		t = w * int64(r.Range(0, 3))
	default:
		t = int64(r.Next()%uint64(130*365*day)) / w * w
		if r.Bool() {
			t += int64(r.Next() % uint64(w))
		}
	}
	renew := 0
	if spill {
		d := time.Unix(0, t).UTC().Day()
		renew = c.Pick(r, []int{0, d, d + 1, d%28 + 1, 1, 29, 31})
	}
	np := 1
	if r.Chance(1, 3) {
		np = r.Range(2, 3)
	}
	for i := 0; i < np; i++ {
		p := Profile{W: w, Allowed: int64(c.Pick(r, []int{0, 1, 2, 2, 3, 3, 5, 10, 100})), Spill: spill, Renew: renew}
		if i > 0 {
			switch r.Intn(4) {
			case 0, 1: // window size change
				p.W = c.Pick(r, histWindows)
			case 2:
				p.Spill = !spill
			}
		}
		if r.Chance(1, 40) {
			p.W = int64(r.Range(-1, 0))
		}
		p.PctE4 = c.Pick(r, niceE4)
		if p.Allowed >= 100 {
			p.PctE4 = c.Pick(r, []int64{70000, 30000, 10000, 5000, 290000})
		} else if r.Bool() {
			p.PctE4 = 1000000
		}
		p.RatioBits = ratioBitsOfPct(p.PctE4)
		if r.Chance(1, 30) {
			p.PctE4 = -1
			p.RatioBits = c.Pick(r, []uint64{math.Float64bits(math.NaN()), math.Float64bits(-1), math.Float64bits(0.9999999996), math.Float64bits(math.Inf(1))})
		}
		k.Profiles = append(k.Profiles, p)
	}
	n := r.Range(4, 40)
	cur := 0
	for i := 0; i < n; i++ {
		if np > 1 && r.Chance(1, 6) {
			cur = r.Intn(np)
		}
		if i > 0 {
			wcur := k.Profiles[cur].W
			if r.Chance(1, 5) {
				wcur = k.Profiles[r.Intn(np)].W
			}
			t = nextInstant(r, t, wcur)
		}
		if r.Chance(1, 12) {
			k.Ops = append(k.Ops, Op{Now: t, Peek: true})
			continue
		}
		k.Ops = append(k.Ops, Op{Now: t, Key: r.Intn(nk), Prof: cur})
	}
	// (Counters() with a zero window size stored for some key: Counter() returns that
	// state's counter as it is -- patches/C09/fix-F-C09b.patch; before it, it panicked
	// part-way through the map in an unspecified order)
	return k
}

// the committed witnesses of known finding F-C09c (spill-over amount stays in force after
// spill-over is disabled), both directions
func genHistWitnesses(o *c.Out) {
	one := math.Float64bits(1)
	// allowed 5 with spill-over: one request in (0,10], one in (20,30] (4 unused carried
	// over); then allowed 0 without spill-over: requests still proceed
	runHist(o, HistCase{
		Profiles: []Profile{{W: 10, Allowed: 5, PctE4: 1000000, RatioBits: one, Spill: true},
			{W: 10, Allowed: 0, PctE4: 1000000, RatioBits: one}},
		Keys: []Key{{Limiter: "A"}},
		Ops:  []Op{{Now: 1}, {Now: 25}, {Now: 35, Prof: 1}, {Now: 35, Prof: 1}},
	})
	// allowed 2 at 150 % with spill-over: three proceed, the roll-over makes the amount -1;
	// then allowed 2 at 100 % without spill-over: the second request is rejected
	runHist(o, HistCase{
		Profiles: []Profile{{W: 10, Allowed: 2, PctE4: 1500000, RatioBits: ratioBitsOfPct(1500000), Spill: true},
			{W: 10, Allowed: 2, PctE4: 1000000, RatioBits: one}},
		Keys: []Key{{Limiter: "A"}},
		Ops:  []Op{{Now: 1}, {Now: 1}, {Now: 1}, {Now: 15}, {Now: 25, Prof: 1}, {Now: 25, Prof: 1}},
	})
}

// every multiset of at most 4 requests over the instants of three windows of size 3
// around a far grid point, limit 2 (the closure of the window edges)
func genHistExhaustive(o *c.Out) {
	const w = 3
	base := int64(1_000_000_000_000) / w * w
	prof := Profile{W: w, Allowed: 2, PctE4: 1000000, RatioBits: math.Float64bits(1)}
	var rec func(ts []int64, from int64)
	rec = func(ts []int64, from int64) {
		if len(ts) > 0 {
			k := HistCase{Profiles: []Profile{prof}, Keys: []Key{{Limiter: "A"}}}
			for _, t := range ts {
				k.Ops = append(k.Ops, Op{Now: base + t})
			}
			runHist(o, k)
		}
		if len(ts) == o.Scale(4, 5, 4) {
			return
		}
		for t := from; t <= 3*w; t++ {
			rec(append(append([]int64{}, ts...), t), t)
		}
	}
	rec(nil, 0)
}

var headerValues = []string{"a", "b", "c", "", "a ", " a", "A", "\ta\n", "b  "}

func genPluginCase(r *c.Rng) PluginCase {
	var k PluginCase
	names := []string{"r1", "r2", "R1"}
	nr := r.Range(1, 3)
	hdr := c.Pick(r, []string{"x-group", "X-Group", "x-lunar-consumer-tag"})
	var t int64
	switch r.Intn(4) {
	case 0:
		t = int64(r.Range(0, 2)) * sec
	default:
		t = int64(r.Next()%uint64(130*365*day)) / sec * sec
		if r.Bool() {
			t += int64(r.Next() % uint64(sec))
		}
	}
	mk := func(name string) Remedy {
		rm := Remedy{
			Name: name, Allowed: int64(c.Pick(r, []int{0, 1, 2, 3, 4, 5, 10, 10, 20, 100})),
			WindowS: c.Pick(r, []int{1, 1, 2, 3, 60}), Status: c.Pick(r, []int{0, 429, 429, 503, 418}),
		}
		if r.Chance(1, 8) {
			rm.Spill = true
			d := time.Unix(0, t).UTC().Day()
			rm.Renew = c.Pick(r, []int{0, d, d + 1, 1})
		}
		if r.Chance(3, 4) {
			g := &Gqa{Header: hdr, Default: c.Pick(r, []string{"allow", "block", "use_default_allocation",
				"use_default_allocation", "", "Allow", "undefined"}),
				DefPctE4: c.Pick(r, []int64{0, 70000, 100000, 250000, 500000, 1000000})}
			vals := append([]string{}, headerValues...)
			ng := r.Range(0, 4)
			for i := 0; i < ng; i++ {
				v := vals[r.Intn(4)]
				if r.Chance(1, 10) {
					v = c.Pick(r, vals)
				}
				e4 := c.Pick(r, []int64{0, 10000, 70000, 100000, 125000, 250000, 333300, 500000, 570000, 1000000, 1500000})
				if rm.Allowed == 100 {
					e4 = c.Pick(r, []int64{70000, 30000, 10000, 60000, 50000})
				}
				g.Groups = append(g.Groups, Alloc{Value: v, PctE4: e4})
			}
			rm.Gqa = g
		}
		return rm
	}
	for i := 0; i < nr; i++ {
		k.Remedies = append(k.Remedies, mk(names[i]))
	}
	// configuration changes: a second version of an existing remedy (same name)
	if r.Chance(1, 3) {
		base := k.Remedies[r.Intn(nr)]
		v2 := base
		switch r.Intn(4) {
		case 0, 1:
			v2.WindowS = c.Pick(r, []int{1, 2, 3, 5, 60})
		case 2:
			v2.Allowed = base.Allowed + int64(r.Range(-1, 3))
		case 3:
			v2 = mk(base.Name)
		}
		k.Remedies = append(k.Remedies, v2)
	}
	if r.Chance(1, 40) {
		k.Remedies[0].Name = ""
	}
	if r.Chance(1, 60) {
		k.Remedies[len(k.Remedies)-1].WindowS = 0
	}
	n := r.Range(6, 45)
	cur := make([]int, 0, len(k.Remedies))
	for i := 0; i < nr; i++ {
		cur = append(cur, i)
	}
	for i := 0; i < n; i++ {
		ri := c.Pick(r, cur)
		if len(k.Remedies) > nr && r.Chance(1, 4) { // switch a remedy to its other version
			last := len(k.Remedies) - 1
			for j := range cur {
				if k.Remedies[cur[j]].Name == k.Remedies[last].Name {
					if cur[j] == last {
						for b := 0; b < nr; b++ {
							if k.Remedies[b].Name == k.Remedies[last].Name {
								cur[j] = b
							}
						}
					} else {
						cur[j] = last
					}
					ri = cur[j]
				}
			}
		}
		if i > 0 {
			w := int64(k.Remedies[ri].WindowS) * sec
			t = nextInstant(r, t, w)
		}
		h := map[string]string{}
		if !r.Chance(1, 10) {
			name := hdr
			if r.Chance(1, 15) {
				name = strings.ToUpper(hdr)
			}
			v := headerValues[r.Intn(3)]
			if r.Chance(1, 5) {
				v = c.Pick(r, headerValues)
			}
			h[name] = v
		}
		k.Reqs = append(k.Reqs, Req{Now: t, Remedy: ri, Headers: h})
	}
	return k
}

// concurrent callers on the same keys at a fixed instant (monitor only): the number
// of requests that proceed is exactly min(calls, share) for every key
type StressCase struct {
	Now      int64     `json:"now_ns"`
	Profiles []Profile `json:"profiles"` // one key per profile
	Workers  int       `json:"workers"`
	Per      int       `json:"calls_per_worker"`
	Passed   []int64   `json:"proceeded"`
}

func runStress(o *c.Out, k StressCase, round int) {
	clk := &fakeClock{now: k.Now}
	st := newState(clk)
	nkeys := len(k.Profiles)
	k.Passed = make([]int64, nkeys)
	var mu sync.Mutex
	var wg sync.WaitGroup
	for w := 0; w < k.Workers; w++ {
		wg.Add(1)
		go func(w int) {
			defer wg.Done()
			local := make([]int64, nkeys)
			for i := 0; i < k.Per; i++ {
				ki := (w + i) % nkeys
				if tryInc(st, Key{Limiter: "s", Grouped: true, Group: strconv.Itoa(ki)}, k.Profiles[ki]) == 1 {
					local[ki]++
				}
			}
			mu.Lock()
			for i := range local {
				k.Passed[i] += local[i]
			}
			mu.Unlock()
		}(w)
	}
	wg.Wait()
	o.Case0(k, true)
	o.MonitorChecked(1)
	o.Count("stress-rounds")
	for ki := 0; ki < nkeys; ki++ {
		calls := int64(0)
		for w := 0; w < k.Workers; w++ {
			for i := 0; i < k.Per; i++ {
				if (w+i)%nkeys == ki {
					calls++
				}
			}
		}
		want := exactShare(k.Profiles[ki].Allowed, k.Profiles[ki].PctE4)
		if calls < want {
			want = calls
		}
		if k.Passed[ki] != want {
			sig := "unjustified-rejection:limit-concurrent"
			if k.Passed[ki] > want {
				sig = "over-admission:limit-concurrent"
			}
			o.Hit(c.Hit{Suite: "stress", Index: round, Signature: sig,
				Demanded: fmt.Sprintf("exactly %d of %d concurrent requests of group %d proceed in one window (allowed %d, %s%%)",
					want, calls, ki, k.Profiles[ki].Allowed, pctString(k.Profiles[ki].PctE4)),
				Observed: fmt.Sprintf("%d proceeded", k.Passed[ki]),
				Case:     k})
		}
	}
}

func stress(o *c.Out) {
	r := o.Rng.Fork(7)
	for round := 0; round < o.Scale(20, 200, 100); round++ {
		k := StressCase{Now: 1_700_000_000*sec + int64(r.Intn(int(sec))), Workers: 8, Per: 40}
		nkeys := r.Range(1, 3)
		for ki := 0; ki < nkeys; ki++ {
			e4 := c.Pick(r, []int64{70000, 100000, 250000, 500000, 1000000})
			k.Profiles = append(k.Profiles, Profile{W: sec, Allowed: int64(c.Pick(r, []int{10, 100, 150, 1000})),
				PctE4: e4, RatioBits: ratioBitsOfPct(e4)})
		}
		runStress(o, k, round)
	}
}

// ---------------------------------------------------------------- main

func main() {
	zerolog.SetGlobalLevel(zerolog.Disabled)
	o := c.NewOut("C09")
	req := "From Verif Require Import C09.Model."
	o.DeclareSuite("limit", req, "case_limit", "run_limit")
	o.DeclareSuite("hist", req, "case_hist", "run_hist")
	o.DeclareSuite("plugin", req, "case_plugin", "run_plugin")
	o.DeclareSuite("overlap", "From Verif Require Import C09.Model C09.Registry C09.Overlap.", "case_overlap", "run_overlap")
	o.Rule("limit: (allowed, percentage) pairs aimed at whole-number products + raw float patterns; " +
		"hist: all multisets of <=4 instants over three 3-ns windows, then random histories over 1-4 keys with " +
		"instants at kW-1/kW/kW+1, window-data changes, spill-over and Counters() calls; plugin: OnRequest " +
		"histories over remedies with allocation tables (all default behaviours), header variants and " +
		"configuration versions; overlap: forced schedules of OnRequest goroutines (held in the group-id hasher " +
		"before the registry look-up, or in the clock reading inside TryToIncrement) and quota_used gauge " +
		"callbacks (held in the clock reading of their n-th limiter), statuses (waiting for a mutex / held / " +
		"finished) after every operation, follow-up requests in the same window; " +
		"distinct = distinct (inputs, observed verdicts); non-trivial = limit strictly " +
		"between 0 and the number of requests / history with a proceed, a block and a window roll-over / " +
		"plugin history with both NoOp and an early response / overlap schedule in which a goroutine was seen " +
		"waiting for a mutex and a request was rejected")

	var raw json.RawMessage
	if suite, ok := o.ReplayCase(&raw); ok {
		switch suite {
		case "limit":
			var k LimitCase
			must(json.Unmarshal(raw, &k))
			runLimit(o, k)
		case "hist":
			var k HistCase
			must(json.Unmarshal(raw, &k))
			runHist(o, k)
		case "plugin":
			var k PluginCase
			must(json.Unmarshal(raw, &k))
			runPlugin(o, k)
		case "overlap":
			var k OverlapCase
			must(json.Unmarshal(raw, &k))
			execOverlap(&k)
			runOverlapCase(o, &k)
		case "stress":
			var k StressCase
			must(json.Unmarshal(raw, &k))
			runStress(o, k, 0)
		case "freshrace":
			var k RaceCase
			must(json.Unmarshal(raw, &k))
			if k.BudgetMs < 5000 {
				k.BudgetMs = 5000 // a race: the replay gets more time than the run that found it
			}
			k.NewGroups, k.Collections, k.Panic = 0, 0, ""
			runFreshRace(o, k, 0)
		default:
			fmt.Fprintln(os.Stderr, "unknown suite in replay file:", suite)
			os.Exit(2)
		}
		o.Finish()
		return
	}

	genLimit(o)
	genHistWitnesses(o)
	genHistExhaustive(o)
	rh := o.Rng.Fork(2)
	for i := 0; i < o.Scale(700, 12000, 12000); i++ {
		runHist(o, genHistCase(rh))
	}
	rp := o.Rng.Fork(3)
	for i := 0; i < o.Scale(500, 6000, 8000); i++ {
		runPlugin(o, genPluginCase(rp))
	}
	genReload(o)
	genOverlap(o)
	stress(o)
	freshRace(o)
	o.Finish()
}

func must(err error) {
	if err != nil {
		panic(err)
	}
}
