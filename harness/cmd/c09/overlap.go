// C09 harness, suite "overlap": requests and metrics collections that really overlap.
//
// The real StrategyBasedThrottlingPlugin is built with
//   - a clock whose Now() can hold the calling goroutine (the reading is taken inside
//     ensureWindowIsUpdated, i.e. with the limiter's mutex held: by a request inside
//     TryToIncrement, by a collection inside Counter()),
//   - a Hasher that can hold the calling goroutine (buildGroupID calls it after the
//     plugin.mutex section of OnRequest and before the registry is looked up),
//   - a metric.Meter that captures the callback registered for the quota_used gauge
//     (observeQuotaUsed, which calls RateLimitState.Counters()); the harness invokes it
//     directly, as the OTel reader would.
//
// A case is a forced schedule: start request / release request / start collection /
// resume collection / set clock.  After every operation the executor waits until every
// goroutine of the case is finished, held at a yield point, or provably waiting for a
// mutex (goroutine wait state, confirmed twice), and records that status vector.
// Nothing in /repo is touched (no shim is needed: only public API is used).
//
// One more yield point exists when the tree carries patches/C09/hook-limit-state-obtained.patch:
// verifhook.Yield("limit.state_obtained") in RateLimitState.TryToIncrement, right after
// getLimiterState returned the (possibly just registered) limiter and before that limiter's
// TryToIncrement takes its mutex and stores the window data.  A request held there has
// published a fresh state (stored window size 0) that a collection can visit.  The family
// "gap" is generated only when a probe request has reached that point (gapHook()).
package main

import (
	"bytes"
	"context"
	"fmt"
	"math/big"
	"regexp"
	"runtime"
	"sort"
	"strconv"
	"sync"
	"sync/atomic"
	"time"

	"lunar/engine/config"
	lunarMessages "lunar/engine/messages"
	"lunar/engine/services/remedies"
	"lunar/engine/utils/limit"
	"lunar/engine/utils/obfuscation"
	"lunar/engine/verifhook"
	"lunar/toolkit-core/logging"

	"go.opentelemetry.io/otel/metric"
	"go.opentelemetry.io/otel/metric/noop"

	c "verifharness/common"
)

const quotaUsedGauge = "lunar_remedies.strategy_based_throttling.quota_used"

// ---------------------------------------------------------------- case

type OvReq struct {
	Remedy  int               `json:"remedy"`
	Headers map[string]string `json:"headers"`
	ParkH   bool              `json:"park_in_hasher,omitempty"`
	ParkG   bool              `json:"park_after_lookup,omitempty"` // at verifhook "limit.state_obtained"
	ParkC   bool              `json:"park_in_clock,omitempty"`
}

// op: "start" / "release" (request I), "collect" / "resume" (collection I), "set" (clock T)
type OvOp struct {
	K string `json:"op"`
	I int    `json:"i"`
	T int64  `json:"t_ns,omitempty"`
}

type OvCnt struct {
	Remedy string `json:"remedy_name"`
	Group  string `json:"group_id"`
	N      int64  `json:"value"`
}

type OverlapCase struct {
	Base     int64    `json:"base_ns"`
	Remedies []Remedy `json:"remedies"`
	Reqs     []OvReq  `json:"requests"`
	Cols     [][]int  `json:"collections"` // per collection: clock readings (1-based) at which it is held
	Ops      []OvOp   `json:"ops"`
	// observed
	Status   [][]int   `json:"status"`   // after every op, requests then collections: -1 not started, 0 waiting for a mutex, 1 held in the hasher, 2 held in a clock reading, 3 finished, 4 held between getLimiterState and the limiter's TryToIncrement, -5 still running after the bounded wait
	Verdicts []int     `json:"verdicts"` // per request: 0 NoOp, s>0 early response, -1 error, -2 panic, -9 unfinished
	Counters [][]OvCnt `json:"counters"` // per collection: what the gauge callback observed
	Reads    []int64   `json:"clock_readings"`
	Seq      []int     `json:"decision_order"`
	Family   string    `json:"family"`
}

// ---------------------------------------------------------------- goroutine states

func curGID() int64 {
	var b [64]byte
	n := runtime.Stack(b[:], false)
	s := b[len("goroutine "):n]
	i := bytes.IndexByte(s, ' ')
	id, _ := strconv.ParseInt(string(s[:i]), 10, 64)
	return id
}

var (
	stackBuf = make([]byte, 1<<18)
	gLine    = regexp.MustCompile(`(?m)^goroutine (\d+) \[([^\],]+)`)
)

// state of every goroutine at one instant (runtime.Stack(all) stops the world)
func gstates() map[int64]string {
	for {
		n := runtime.Stack(stackBuf, true)
		if n < len(stackBuf) {
			out := map[int64]string{}
			for _, m := range gLine.FindAllSubmatch(stackBuf[:n], -1) {
				id, _ := strconv.ParseInt(string(m[1]), 10, 64)
				out[id] = string(m[2])
			}
			return out
		}
		stackBuf = make([]byte, 2*len(stackBuf))
	}
}

var lockStates = map[string]bool{
	"sync.Mutex.Lock": true, "sync.RWMutex.Lock": true, "sync.RWMutex.RLock": true, "semacquire": true,
}

// ---------------------------------------------------------------- executor

type othread struct {
	isCol   bool
	gid     int64
	started bool
	done    bool
	parkH   bool // still to be held in the hasher
	parkG   bool // still to be held at the yield point after getLimiterState
	parkC   bool // still to be held in its clock reading
	parks   map[int]bool
	reads   int
	at      int // 0 running / waiting, 1 held in the hasher, 2 held in a clock reading, 4 held after getLimiterState
	wake    chan struct{}
	stuck   bool // did not settle within the bounded wait
	// results
	code int
	read int64
	seq  int
	cnts []OvCnt
}

type orunner struct {
	mu    sync.Mutex
	now   int64
	seq   int
	byGid map[int64]*othread
	reqs  []*othread
	cols  []*othread

	k      *OverlapCase
	plugin *remedies.StrategyBasedThrottlingPlugin
	srs    []config.ScopedRemedy
	cb     metric.Int64Callback
}

// clock.Clock
func (x *orunner) Now() time.Time {
	x.mu.Lock()
	t := x.now
	var wake chan struct{}
	if th := x.byGid[curGID()]; th != nil {
		th.reads++
		if th.isCol {
			if th.parks[th.reads] {
				th.at, wake = 2, th.wake
			}
		} else {
			x.seq++
			th.read, th.seq = t, x.seq
			if th.parkC {
				th.parkC, th.at, wake = false, 2, th.wake
			}
		}
	}
	x.mu.Unlock()
	if wake != nil {
		<-wake
	}
	return time.Unix(0, t).UTC()
}
func (x *orunner) Sleep(time.Duration) {}
func (x *orunner) After(time.Duration) <-chan time.Time {
	ch := make(chan time.Time, 1)
	ch <- x.Now()
	return ch
}
func (x *orunner) Since(t time.Time) time.Duration { return x.Now().Sub(t) }
func (x *orunner) Until(t time.Time) time.Duration { return t.Sub(x.Now()) }

// obfuscation.Hasher (identity, as wired in services.go)
func (x *orunner) HashBytes(raw []byte) string {
	x.mu.Lock()
	var wake chan struct{}
	if th := x.byGid[curGID()]; th != nil && !th.isCol && th.parkH {
		th.parkH, th.at, wake = false, 1, th.wake
	}
	x.mu.Unlock()
	if wake != nil {
		<-wake
	}
	return string(raw)
}

// verifhook.Yield: the point after getLimiterState (the goroutine holds no mutex)
const gapPoint = "limit.state_obtained"

var (
	curRunner atomic.Pointer[orunner]
	gapSeen   atomic.Int64
)

func yieldHandler(point string) {
	if point != gapPoint {
		return
	}
	gapSeen.Add(1)
	x := curRunner.Load()
	if x == nil {
		return
	}
	x.mu.Lock()
	var wake chan struct{}
	if th := x.byGid[curGID()]; th != nil && !th.isCol && th.parkG {
		th.parkG, th.at, wake = false, 4, th.wake
	}
	x.mu.Unlock()
	if wake != nil {
		<-wake
	}
}

var gapHookOnce struct {
	sync.Once
	present bool
}

// does the tree call verifhook.Yield("limit.state_obtained")?  One request on a scratch plugin.
func gapHook() bool {
	gapHookOnce.Do(func() {
		verifhook.SetYield(yieldHandler)
		before := gapSeen.Load()
		k := &OverlapCase{Remedies: []Remedy{{Name: "probe", Allowed: 1, WindowS: 1}}, Reqs: []OvReq{{Headers: map[string]string{}}}}
		x := newORunner(k)
		x.do(OvOp{K: "start", I: 0})
		x.close()
		gapHookOnce.present = gapSeen.Load() > before
	})
	return gapHookOnce.present
}

type captureMeter struct {
	noop.Meter
	cbs map[string][]metric.Int64Callback
}

func (m *captureMeter) Int64ObservableGauge(name string, opts ...metric.Int64ObservableGaugeOption,
) (metric.Int64ObservableGauge, error) {
	cfg := metric.NewInt64ObservableGaugeConfig(opts...)
	m.cbs[name] = append(m.cbs[name], cfg.Callbacks()...)
	return noop.Int64ObservableGauge{}, nil
}

type captureObserver struct {
	noop.Int64Observer
	out []OvCnt
}

func (o *captureObserver) Observe(v int64, opts ...metric.ObserveOption) {
	attrs := metric.NewObserveConfig(opts).Attributes()
	g, _ := attrs.Value("group_id")
	r, _ := attrs.Value("remedy_name")
	o.out = append(o.out, OvCnt{Remedy: r.AsString(), Group: g.AsString(), N: v})
}

func newORunner(k *OverlapCase) *orunner {
	x := &orunner{now: k.Base, byGid: map[int64]*othread{}, k: k}
	verifhook.SetYield(yieldHandler)
	curRunner.Store(x)
	st := limit.NewRateLimitState(x, logging.ContextLogger{})
	meter := &captureMeter{cbs: map[string][]metric.Int64Callback{}}
	p, err := remedies.NewStrategyBasedThrottlingPlugin(context.Background(), x, meter, st,
		obfuscation.Obfuscator{Hasher: x})
	if err != nil {
		panic(err)
	}
	if len(meter.cbs[quotaUsedGauge]) != 1 {
		panic("C09 harness (overlap): the plugin did not register exactly one callback for " + quotaUsedGauge)
	}
	x.plugin, x.cb = p, meter.cbs[quotaUsedGauge][0]
	for _, r := range k.Remedies {
		x.srs = append(x.srs, remedyConfig(r))
	}
	for _, q := range k.Reqs {
		x.reqs = append(x.reqs, &othread{parkH: q.ParkH, parkG: q.ParkG, parkC: q.ParkC, wake: make(chan struct{}, 1),
			code: -9, read: -1})
	}
	for _, ps := range k.Cols {
		th := &othread{isCol: true, parks: map[int]bool{}, wake: make(chan struct{}, 1)}
		for _, n := range ps {
			th.parks[n] = true
		}
		x.cols = append(x.cols, th)
	}
	return x
}

func (x *orunner) register(th *othread) {
	x.mu.Lock()
	th.gid = curGID()
	x.byGid[th.gid] = th
	x.mu.Unlock()
}

func (x *orunner) finish(th *othread, f func()) {
	x.mu.Lock()
	f()
	th.done = true
	delete(x.byGid, th.gid)
	x.mu.Unlock()
}

func (x *orunner) startReq(i int) {
	th := x.reqs[i]
	q := x.k.Reqs[i]
	th.started = true
	go func() {
		x.register(th)
		req := lunarMessages.OnRequest{
			ID: strconv.Itoa(i), SequenceID: strconv.Itoa(i), Method: "GET", Scheme: "https",
			URL: "verif.test/c09", Path: "/c09", Headers: q.Headers,
		}
		code := onRequest(x.plugin, req, x.srs[q.Remedy])
		x.finish(th, func() { th.code = code })
	}()
}

func (x *orunner) startCol(j int) {
	th := x.cols[j]
	th.started = true
	go func() {
		x.register(th)
		obs := &captureObserver{}
		panicked := false
		func() {
			defer func() {
				if r := recover(); r != nil {
					panicked = true
				}
			}()
			if err := x.cb(context.Background(), obs); err != nil {
				panicked = true
			}
		}()
		x.finish(th, func() {
			if panicked {
				th.cnts = []OvCnt{{N: -1}}
			} else {
				th.cnts = obs.out
			}
		})
	}()
}

func (x *orunner) release(th *othread) {
	x.mu.Lock()
	ok := th.at != 0
	th.at = 0
	x.mu.Unlock()
	if ok {
		th.wake <- struct{}{}
	}
}

func (x *orunner) all() []*othread { return append(append([]*othread{}, x.reqs...), x.cols...) }

// running = started, not finished, not held
func (x *orunner) running() (ths []*othread, gids []int64) {
	x.mu.Lock()
	defer x.mu.Unlock()
	for _, th := range x.all() {
		if th.started && !th.done && th.at == 0 {
			ths = append(ths, th)
			gids = append(gids, th.gid)
		}
	}
	return
}

func sameThreads(a, b []*othread) bool {
	if len(a) != len(b) {
		return false
	}
	for i := range a {
		if a[i] != b[i] {
			return false
		}
	}
	return true
}

func allBlocked(gids []int64) bool {
	st := gstates()
	for _, g := range gids {
		if g == 0 || !lockStates[st[g]] {
			return false
		}
	}
	return true
}

// waits until every goroutine of the case is finished, held, or waiting for a mutex
func (x *orunner) settle() {
	deadline := time.Now().Add(2 * time.Second)
	for i := 0; ; i++ {
		ths, gids := x.running()
		if len(ths) == 0 {
			return
		}
		if allBlocked(gids) {
			// a goroutine seen waiting for a mutex must still be there a moment later
			time.Sleep(150 * time.Microsecond)
			ths2, gids2 := x.running()
			if sameThreads(ths, ths2) && allBlocked(gids2) {
				return
			}
			continue
		}
		if i < 100 {
			runtime.Gosched()
		} else {
			time.Sleep(20 * time.Microsecond)
		}
		if i%256 == 255 && time.Now().After(deadline) {
			st := gstates()
			x.mu.Lock()
			for _, th := range ths {
				if !th.done && th.at == 0 && !lockStates[st[th.gid]] {
					th.stuck = true
				}
			}
			x.mu.Unlock()
			return
		}
	}
}

func (x *orunner) status() []int {
	x.mu.Lock()
	defer x.mu.Unlock()
	var out []int
	for _, th := range x.all() {
		switch {
		case !th.started:
			out = append(out, -1)
		case th.done:
			out = append(out, 3)
		case th.at != 0:
			out = append(out, th.at)
		case th.stuck:
			out = append(out, -5)
		default:
			out = append(out, 0)
		}
	}
	return out
}

func (x *orunner) do(op OvOp) []int {
	switch op.K {
	case "start":
		x.startReq(op.I)
	case "release":
		x.release(x.reqs[op.I])
	case "collect":
		x.startCol(op.I)
	case "resume":
		x.release(x.cols[op.I])
	case "set":
		x.mu.Lock()
		x.now = x.k.Base + op.T
		x.mu.Unlock()
	default:
		panic("C09 harness (overlap): unknown op " + op.K)
	}
	x.settle()
	st := x.status()
	x.k.Ops = append(x.k.Ops, op)
	x.k.Status = append(x.k.Status, st)
	return st
}

// releases whatever is still held, collects the results; goroutines that cannot finish
// (possible on a changed tree only) are abandoned
func (x *orunner) close() {
	for round := 0; round < 8; round++ {
		any := false
		for _, th := range x.all() {
			x.mu.Lock()
			held := th.started && !th.done && th.at != 0
			x.mu.Unlock()
			if held {
				x.release(th)
				any = true
			}
		}
		x.settle()
		if !any {
			break
		}
	}
	x.mu.Lock()
	defer x.mu.Unlock()
	k := x.k
	k.Verdicts, k.Reads, k.Seq, k.Counters = nil, nil, nil, nil
	for _, th := range x.reqs {
		code := -9
		if th.done {
			code = th.code
		}
		k.Verdicts = append(k.Verdicts, code)
		k.Reads = append(k.Reads, th.read)
		k.Seq = append(k.Seq, th.seq)
	}
	for _, th := range x.cols {
		cn := []OvCnt{{N: -1}}
		if th.done {
			cn = append([]OvCnt{}, th.cnts...)
			sort.Slice(cn, func(i, j int) bool {
				if cn[i].Remedy != cn[j].Remedy {
					return cn[i].Remedy < cn[j].Remedy
				}
				return cn[i].Group < cn[j].Group
			})
		}
		k.Counters = append(k.Counters, cn)
	}
}

// replays the recorded operations verbatim
func execOverlap(k *OverlapCase) {
	ops := k.Ops
	k.Ops, k.Status = nil, nil
	x := newORunner(k)
	for _, op := range ops {
		x.do(op)
	}
	x.close()
}

// ---------------------------------------------------------------- Coq term

func coqOverlap(k *OverlapCase) string {
	var t strtab
	rems := c.MapList(k.Remedies, func(r Remedy) string {
		g := "None"
		if r.Gqa != nil {
			g = "(Some (mk_gqa " + t.ref(r.Gqa.Header) + " " +
				c.MapList(r.Gqa.Groups, func(a Alloc) string {
					return "mk_alloc " + t.ref(a.Value) + " " + pctBits(a.PctE4)
				}) + " " + t.ref(r.Gqa.Default) + " " + pctBits(r.Gqa.DefPctE4) + "))"
		}
		return "mk_remedy " + t.ref(r.Name) + " " + c.Z(r.Allowed) + " " + c.Z(int64(r.WindowS)) + " " +
			c.Z(int64(r.Status)) + " " + c.B(r.Spill) + " " + c.Z(int64(r.Renew)) + " " + g
	})
	// the distinct (remedy, headers) pairs
	var keyTerms []string
	keyIdx := map[string]int{}
	reqs := c.MapList(k.Reqs, func(r OvReq) string {
		names := make([]string, 0, len(r.Headers))
		for n := range r.Headers {
			names = append(names, n)
		}
		sort.Strings(names)
		term := "mk_okey " + c.Nat(r.Remedy) + " " + c.MapList(names, func(n string) string {
			return "mk_hdr " + t.ref(n) + " " + t.ref(r.Headers[n])
		})
		i, ok := keyIdx[term]
		if !ok {
			i = len(keyTerms)
			keyIdx[term] = i
			keyTerms = append(keyTerms, term)
		}
		return "mk_oreq " + c.Nat(i) + " " + c.B(r.ParkH) + " " + c.B(r.ParkG) + " " + c.B(r.ParkC)
	})
	cols := c.MapList(k.Cols, func(ps []int) string {
		return "(" + c.MapList(ps, func(n int) string { return c.Nat(n) }) + " : list nat)"
	})
	ops := c.MapList(k.Ops, func(o OvOp) string {
		switch o.K {
		case "start":
			return "OStart " + c.Nat(o.I)
		case "release":
			return "ORelease " + c.Nat(o.I)
		case "collect":
			return "OCollect " + c.Nat(o.I)
		case "resume":
			return "OResume " + c.Nat(o.I)
		}
		return "OSet " + c.Z(o.T)
	})
	// one number per status vector: digit (status+1) in base 8, first thread = lowest digit
	sts := c.MapList(k.Status, func(s []int) string {
		v := new(big.Int)
		for i := len(s) - 1; i >= 0; i-- {
			d := int64(6)
			if s[i] >= -1 && s[i] <= 4 {
				d = int64(s[i] + 1)
			}
			v.Lsh(v, 3).Add(v, big.NewInt(d))
		}
		return v.String()
	})
	cnts := c.MapList(k.Counters, func(cs []OvCnt) string {
		return "(" + c.MapList(cs, func(x OvCnt) string {
			return "mk_ocnt " + t.ref(x.Remedy) + " " + t.ref(x.Group) + " " + c.Z(x.N)
		}) + " : list ocnt_t)"
	})
	return t.wrap("mk_overlap " + c.Z(k.Base) + " " + rems + " " + c.List(keyTerms) + " " + reqs + " " + cols + " " + ops + " " +
		sts + " " + ints(k.Verdicts) + " " + cnts)
}

// ---------------------------------------------------------------- monitor (independent of the model)

// Per group and aligned window at most ceil(allowed*pct/100) requests proceed, and a request
// is rejected only if its group's allowance for the window is used up -- judged over the
// requests in the order in which the limiter decided them (the order of their clock
// readings, taken under the limiter's mutex), each at the instant it read.
func monitorOverlap(k *OverlapCase) []c.Hit {
	var hits []c.Hit
	type dec struct{ i, seq int }
	var ds []dec
	for i := range k.Reqs {
		switch {
		case k.Verdicts[i] == -9:
			hits = append(hits, c.Hit{Signature: "no-verdict:overlap-metrics",
				Demanded: "every request gets NoOp or the early response once nothing holds it",
				Observed: fmt.Sprintf("request #%d never returned", i), Case: k})
		case k.Reads[i] < 0: // decided without a limiter (not generated)
		default:
			ds = append(ds, dec{i, k.Seq[i]})
		}
	}
	for j, cn := range k.Counters {
		if len(cn) == 1 && cn[0].N == -1 && cn[0].Remedy == "" {
			hits = append(hits, c.Hit{Signature: "collection-failed:overlap-metrics",
				Demanded: "a metrics collection returns",
				Observed: fmt.Sprintf("collection #%d panicked or never returned", j), Case: k})
		}
	}
	sort.Slice(ds, func(a, b int) bool { return ds[a].seq < ds[b].seq })
	pk := PluginCase{Remedies: k.Remedies}
	for _, d := range ds {
		q := k.Reqs[d.i]
		pk.Reqs = append(pk.Reqs, Req{Now: k.Reads[d.i], Remedy: q.Remedy, Headers: q.Headers})
		pk.Observed = append(pk.Observed, k.Verdicts[d.i])
	}
	return append(hits, monitorPluginSite(&pk, "overlap-metrics", k)...)
}

func runOverlapCase(o *c.Out, k *OverlapCase) {
	blocked, parkedCol, gapped := false, false, false
	nr := len(k.Reqs)
	for _, st := range k.Status {
		for i, s := range st {
			if s == 0 {
				blocked = true
			}
			if i >= nr && s == 2 {
				parkedCol = true
			}
			if i < nr && s == 4 {
				gapped = true
			}
		}
	}
	rej := countObs(k.Verdicts, func(v int) bool { return v > 0 })
	idx := o.Case("overlap", coqOverlap(k), k, blocked && rej > 0)
	o.Count("overlap:" + k.Family)
	if blocked {
		o.Count("overlap:with-waiting-goroutine")
	}
	if parkedCol {
		o.Count("overlap:collection-held-between-limiters")
	}
	if gapped {
		o.Count("overlap:request-held-after-registering-its-limiter")
	}
	o.MonitorChecked(1)
	for _, h := range monitorOverlap(k) {
		h.Suite, h.Index = "overlap", idx
		o.Hit(h)
	}
}
