package main

// simClock: deterministic clock.Clock for the policy suite. utils.MemoryCache
// starts, on every Set, a goroutine that calls clock.Sleep(ttl) and then deletes
// the key. Here Sleep parks the goroutine until the harness releases it:
//
//	advance(d)  moves the clock, releases nobody
//	fire()      releases every sleeper whose deadline is <= now and waits until
//	            each of them has finished (the delete happened)
//	settle()    waits until every goroutine started since the case began is
//	            parked in Sleep (so its deadline was computed from the right now)
//
// "finished"/"parked" is observed through runtime.NumGoroutine(): the number of
// goroutines above the level at the start of the case must equal the number of
// parked sleepers. The policy suite runs single-threaded and before anything
// else in the process starts background goroutines.

import (
	"fmt"
	"runtime"
	"sync"
	"time"
)

type sleeper struct {
	deadline time.Time
	ch       chan struct{}
}

type simClock struct {
	mu       sync.Mutex
	now      time.Time
	parked   []*sleeper
	baseline int
}

func newSimClock(t time.Time) *simClock {
	return &simClock{now: t, baseline: runtime.NumGoroutine()}
}

func (s *simClock) Now() time.Time {
	s.mu.Lock()
	defer s.mu.Unlock()
	return s.now
}

func (s *simClock) Sleep(d time.Duration) {
	s.mu.Lock()
	w := &sleeper{deadline: s.now.Add(d), ch: make(chan struct{})}
	s.parked = append(s.parked, w)
	s.mu.Unlock()
	<-w.ch
}

func (s *simClock) After(d time.Duration) <-chan time.Time {
	ch := make(chan time.Time, 1)
	go func() {
		s.Sleep(d)
		ch <- s.Now()
	}()
	return ch
}

func (s *simClock) Since(t time.Time) time.Duration { return s.Now().Sub(t) }
func (s *simClock) Until(t time.Time) time.Duration { return t.Sub(s.Now()) }

func (s *simClock) advance(d time.Duration) {
	s.mu.Lock()
	s.now = s.now.Add(d)
	s.mu.Unlock()
}

func (s *simClock) settle() error {
	deadline := time.Now().Add(10 * time.Second)
	for i := 0; ; i++ {
		s.mu.Lock()
		n := len(s.parked)
		s.mu.Unlock()
		extra := runtime.NumGoroutine() - s.baseline
		if extra == n {
			return nil
		}
		if i < 200 {
			runtime.Gosched()
		} else {
			time.Sleep(20 * time.Microsecond)
		}
		if time.Now().After(deadline) {
			return fmt.Errorf("simClock: goroutines did not settle (extra=%d parked=%d)", extra, n)
		}
	}
}

func (s *simClock) fire() error {
	s.mu.Lock()
	var keep, due []*sleeper
	for _, w := range s.parked {
		if w.deadline.After(s.now) {
			keep = append(keep, w)
		} else {
			due = append(due, w)
		}
	}
	s.parked = keep
	s.mu.Unlock()
	for _, w := range due {
		close(w.ch)
	}
	return s.settle()
}

// drain releases everything that is still parked (end of a case).
func (s *simClock) drain() {
	s.mu.Lock()
	all := s.parked
	s.parked = nil
	s.mu.Unlock()
	for _, w := range all {
		close(w.ch)
	}
	_ = s.settle()
}
