// C17 harness: retries are bounded by the configured number of attempts.
//
// Three correspondence suites, all against the real code:
//
//	flowproc   real processorretry.NewProcessor + Execute, two processors sharing
//	           one real flow context (the object streamflow.NewFlow builds), real
//	           APIStream; deterministic clock records the cool-downs waited.
//	flowengine a generated flow (Filter(status_code_range) -> Retry chain) loaded
//	           by streams.NewStream().Initialize(); responses through ExecuteFlow;
//	           what ran is read from the verifhook "proc" events + the actions.
//	policy     real remedies.RetryPlugin with the real utils.MemoryCache on a
//	           deterministic clock; sleepers of the cache are released explicitly
//	           (TFire) so ttl lapse and premature expiry are part of the cases.
//
// Observable = per response "retry" / "failed" / "other" (flows) or
// "retry" / "noop" (policy). The monitors below restate the property over
// those traces and never look at the model.
package main

import (
	"fmt"
	"os"
	"strings"
	"time"

	"lunar/engine/actions"
	lunar_messages "lunar/engine/messages"
	"lunar/engine/services/remedies"
	lunar_context "lunar/engine/streams/lunar-context"
	processorretry "lunar/engine/streams/processors/retry"
	public_types "lunar/engine/streams/public-types"
	stream_types "lunar/engine/streams/types"
	sharedConfig "lunar/shared-model/config"

	"github.com/rs/zerolog"

	c "verifharness/common"
)

// ------------------------------------------------------------------ cases

type ProcCfg struct {
	Attempts   int     `json:"attempts"`
	Cooldown   int     `json:"cooldown_s"`
	Multiplier float64 `json:"cooldown_multiplier"`
}
type ProcEv struct {
	Proc int    `json:"proc"`
	Seq  int    `json:"seq"`
	Body string `json:"body,omitempty"` // flowbody: kind of body; the stream is built by NewResponseAPIStream
}
type FlowProcCase struct {
	Procs  []ProcCfg `json:"procs"`
	Events []ProcEv  `json:"events"`
	Loaded []bool    `json:"loaded"`
	Outs   []string  `json:"outs"`
	Waited []int64   `json:"cooldown_waited_ns"` // informative, not compared
	SeqIDs []string  `json:"stream_sequence_ids,omitempty"` // flowbody: what the stream reports as its sequence id (informative)
}

type EngEv struct {
	Seq    int `json:"seq"`
	Status int `json:"status"`
}
type EngineCase struct {
	Stages []Stage  `json:"stages"`
	Events []EngEv  `json:"events"`
	InitOK bool     `json:"init_ok"`
	Outs   []string `json:"outs"`
	Ran    []int    `json:"retry_processor_ran"` // stage index or -1, per event
	Kept   [][]int  `json:"counter_kept_after"`  // stages whose counter for the sequence is in the flow context after the event (not compared)
}

type PolEv struct {
	Kind   string `json:"kind"` // resp | advance | fire
	Seq    int    `json:"seq,omitempty"`
	New    bool   `json:"is_new,omitempty"`
	Status int    `json:"status,omitempty"`
	Dt     int64  `json:"dt_ns,omitempty"`
}
type PolicyCase struct {
	Attempts   int      `json:"attempts"`
	Cooldown   int      `json:"initial_cooldown_s"`
	Multiplier int      `json:"cooldown_multiplier"`
	Ranges     [][2]int `json:"status_ranges"`
	T0         int64    `json:"t0_ns"`
	Events     []PolEv  `json:"events"`
	Outs       []string `json:"outs"` // one per resp event
}

type Case struct {
	FlowProc *FlowProcCase `json:"flowproc,omitempty"`
	Engine   *EngineCase   `json:"flowengine,omitempty"`
	Policy   *PolicyCase   `json:"policy,omitempty"`
	FlowBody *FlowProcCase `json:"flowbody,omitempty"`
	Dispatch *DispatchCase `json:"dispatch,omitempty"`
}

func outCode(s string) int64 {
	switch s {
	case "retry":
		return 0
	case "failed":
		return 1
	case "other":
		return 2
	}
	return 3
}
func polCode(s string) int64 {
	switch s {
	case "retry":
		return 0
	case "noop":
		return 1
	}
	return 2
}

// ------------------------------------------------------------------ flowproc

// procClock: the processor's cool-down wait returns at once; durations recorded.
type procClock struct {
	now    time.Time
	waited []int64
}

func (p *procClock) Now() time.Time        { return p.now }
func (p *procClock) Sleep(d time.Duration) { p.now = p.now.Add(d) }
func (p *procClock) After(d time.Duration) <-chan time.Time {
	p.waited = append(p.waited, int64(d))
	p.now = p.now.Add(d)
	ch := make(chan time.Time, 1)
	ch <- p.now
	return ch
}
func (p *procClock) Since(t time.Time) time.Duration { return p.now.Sub(t) }
func (p *procClock) Until(t time.Time) time.Duration { return t.Sub(p.now) }

func execFlowProc(k *FlowProcCase) {
	clk := &procClock{now: time.Unix(1_700_000_000, 0)}
	// the context a real Flow owns (streams/flow/flow.go NewFlow)
	ctx := lunar_context.NewContextManager().WithFlowContext().WithTransactionalContext().GetLunarContext()
	shared := lunar_context.NewMemoryState[[]byte]()
	procs := make([]stream_types.ProcessorI, len(k.Procs))
	k.Loaded, k.Outs, k.SeqIDs = nil, nil, nil
	for i, pc := range k.Procs {
		params := map[string]stream_types.ProcessorParam{
			"attempts":                          {Name: "attempts", Value: public_types.NewParamValue(pc.Attempts)},
			"cooldown_between_attempts_seconds": {Name: "cooldown_between_attempts_seconds", Value: public_types.NewParamValue(pc.Cooldown)},
			"cooldown_multiplier":               {Name: "cooldown_multiplier", Value: public_types.NewParamValue(pc.Multiplier)},
		}
		md := &stream_types.ProcessorMetaData{Name: fmt.Sprintf("R%d", i), Parameters: params, Clock: clk}
		p, err := processorretry.NewProcessor(md)
		if err == nil {
			procs[i] = p
		}
		k.Loaded = append(k.Loaded, err == nil)
	}
	for n, ev := range k.Events {
		if ev.Proc < 0 || ev.Proc >= len(procs) || procs[ev.Proc] == nil {
			k.Outs = append(k.Outs, "other") // not in the flow: nothing executes
			continue
		}
		seq := fmt.Sprintf("seq-%d", ev.Seq)
		id := fmt.Sprintf("tx-%d", n)
		var api public_types.APIStreamI
		if ev.Body != "" {
			api = responseStream(id, seq, ev.Body, shared)
			k.SeqIDs = append(k.SeqIDs, api.GetSequenceID())
		} else {
			a := stream_types.NewAPIStream("C17", public_types.StreamTypeResponse, shared)
			a.SetRequest(stream_types.NewRequest(lunar_messages.OnRequest{
				ID: id, SequenceID: seq, Method: "GET", Scheme: "https", URL: engineHost + "/x", Headers: map[string]string{},
			}))
			a.SetResponse(stream_types.NewResponse(lunar_messages.OnResponse{
				ID: id, SequenceID: seq, Method: "GET", URL: engineHost + "/x", Status: 500, Headers: map[string]string{},
			}))
			api = a
		}
		api.SetContext(ctx)
		io, err, pan := executeGuarded(procs[ev.Proc], api)
		_, isRetry := io.RespAction.(*actions.RetryRequestAction)
		switch {
		case pan != "":
			k.Outs = append(k.Outs, "panic:"+pan)
		case err != nil:
			k.Outs = append(k.Outs, "error:"+err.Error())
		case io.Name == "retry" && isRetry:
			k.Outs = append(k.Outs, "retry")
		case io.Name == "failed" && !isRetry:
			k.Outs = append(k.Outs, "failed")
		default:
			k.Outs = append(k.Outs, fmt.Sprintf("inconsistent(%q,retry_action=%v)", io.Name, isRetry))
		}
	}
	k.Waited = clk.waited
}

// executeGuarded: a panic inside the processor is an observation, not a harness failure
func executeGuarded(p stream_types.ProcessorI, api public_types.APIStreamI) (io stream_types.ProcessorIO, err error, pan string) {
	defer func() {
		if r := recover(); r != nil {
			pan = fmt.Sprint(r)
		}
	}()
	io, err = p.Execute("C17Flow", api)
	return
}

func coqFlowProc(k *FlowProcCase) string {
	procs := make([]string, len(k.Procs))
	for i, p := range k.Procs {
		procs[i] = c.Tuple(c.Z(int64(i)), c.Z(int64(p.Attempts)))
	}
	return c.Tuple(
		c.List(procs),
		c.MapList(k.Events, func(e ProcEv) string { return c.Tuple(c.Z(int64(e.Proc)), c.Z(int64(e.Seq))) }),
		c.Tuple(c.MapList(k.Loaded, c.B), c.MapList(k.Outs, func(s string) string { return c.Z(outCode(s)) })),
	)
}

// ------------------------------------------------------------------ flow monitor

type flowObs struct {
	proc, seq int    // proc < 0: no retry processor handled the response
	out       string // retry | failed | other | ...
	retryable bool   // the response met the retry conditions of some stage
}

// sigCounterKept: finding F-C17b — a response outside the retry conditions does
// not end the sequence in flows mode (the retry processor is not reached and
// its counter stays in the flow context).
const sigCounterKept = "flow-counter-kept:non-retryable-end"

// monitorFlow restates the flows-mode part of the property over what happened.
// A logical call of a sequence on a retry processor is ended by "failed" and by
// a response of the sequence outside the retry conditions (the text: "ends the
// sequence"). Per (processor, sequence):
//   - retries within one call <= attempts (flow-bound);
//   - a response outside the retry conditions is never answered "retry";
//   - after the end of a call the next one starts afresh: every call that is
//     ended by "failed" hands out the same number of retries as the first such
//     call, an open call never more (flow-fresh-start);
//   - "failed" before the call used its budget, where the retries of calls that
//     were ended by a non-retryable response make up the difference, is the
//     known root cause sigCounterKept (classifier: carried > 0 at a "failed"
//     with call < attempts and call + carried == attempts).
//
// It does not demand exactly `attempts` retries ("at most").
func monitorFlow(obs []flowObs, attempts func(proc int) int, cs any) []c.Hit {
	var hits []c.Hit
	add := func(sig, dem, ob string) {
		hits = append(hits, c.Hit{Signature: sig, Demanded: dem, Observed: ob, Case: cs})
	}
	type key struct{ p, s int }
	call := map[key]int{}    // retries of the current call
	carried := map[key]int{} // retries since the latest failed that belong to calls ended by a non-retryable response
	first := map[key]int{}   // retries of the first call ended by failed
	done := map[key]bool{}
	for i, o := range obs {
		if !o.retryable && o.out == "retry" {
			add("flow-retry-outside-conditions", "a response outside the retry conditions is never retried",
				fmt.Sprintf("response #%d of sequence %d answered retry", i, o.seq))
		}
		if !o.retryable && o.out == "other" {
			// the sequence is ended for every retry processor
			for k := range call {
				if k.s == o.seq {
					carried[k] += call[k]
					call[k] = 0
				}
			}
			continue
		}
		if o.out != "retry" && o.out != "failed" {
			continue
		}
		k := key{o.proc, o.seq}
		a := attempts(o.proc)
		if a < 0 {
			a = 0
		}
		if o.out == "retry" {
			call[k]++
			if call[k] > a {
				add("flow-bound", fmt.Sprintf("at most %d retries per call of a sequence", a),
					fmt.Sprintf("retry #%d for sequence %d on processor %d at response #%d", call[k], o.seq, o.proc, i))
			}
			if done[k] && call[k] > first[k] {
				add("flow-fresh-start", "after the end of a call the sequence starts afresh (same budget as the first call)",
					fmt.Sprintf("call got %d retries, the first completed call %d (sequence %d, response #%d)", call[k], first[k], o.seq, i))
			}
			continue
		}
		// failed
		switch {
		case carried[k] > 0 && call[k] < a && call[k]+carried[k] == a:
			add(sigCounterKept, "a response outside the retry conditions ends the sequence: a later call reusing the sequence id starts afresh",
				fmt.Sprintf("response #%d: failed after %d of %d retries of this call; %d retries of calls of sequence %d that a non-retryable response had ended were still counted (processor %d)",
					i, call[k], a, carried[k], o.seq, o.proc))
		case !done[k]:
			done[k], first[k] = true, call[k]
		case call[k] != first[k]:
			add("flow-fresh-start", "after the end of a call the sequence starts afresh (same budget as the first call)",
				fmt.Sprintf("call ended by failed after %d retries, the first one after %d (sequence %d, response #%d)", call[k], first[k], o.seq, i))
		}
		call[k], carried[k] = 0, 0
	}
	return hits
}

// ------------------------------------------------------------------ flowengine

var rangePresets = [][][2]int{
	{{500, 599}},
	{{500, 502}, {504, 599}},
	{{429, 429}, {500, 503}},
	{{500, 550}, {540, 599}}, // overlapping: first stage wins
	{{503, 503}},
}

func execEngine(k *EngineCase) error {
	k.Outs, k.Ran, k.Kept = nil, nil, nil
	e, err := newEngine(k.Stages)
	k.InitOK = err == nil
	if err != nil {
		return nil
	}
	for n, ev := range k.Events {
		out, ran, kept, err := e.respond(fmt.Sprintf("seq-%d", ev.Seq), fmt.Sprintf("tx-%d", n), ev.Status, len(k.Stages))
		if err != nil {
			return err
		}
		k.Outs = append(k.Outs, out)
		k.Kept = append(k.Kept, kept)
		idx := -1
		if ran != "" {
			fmt.Sscanf(ran, "R%d", &idx)
		}
		k.Ran = append(k.Ran, idx)
	}
	return nil
}

func coqEngine(k *EngineCase) string {
	return c.Tuple(
		c.MapList(k.Stages, func(s Stage) string {
			return c.Tuple(c.Z(int64(s.From)), c.Z(int64(s.To)), c.Z(int64(s.Attempts)))
		}),
		c.MapList(k.Events, func(e EngEv) string { return c.Tuple(c.Z(int64(e.Seq)), c.Z(int64(e.Status))) }),
		c.Tuple(c.B(k.InitOK), c.MapList(k.Outs, func(s string) string { return c.Z(outCode(s)) })),
	)
}

// ------------------------------------------------------------------ policy

func inRanges(rs [][2]int, status int) bool {
	for _, r := range rs {
		if status >= r[0] && status <= r[1] {
			return true
		}
	}
	return false
}

func execPolicy(k *PolicyCase) error {
	clk := newSimClock(time.Unix(0, k.T0))
	defer clk.drain()
	plugin := remedies.NewRetryPlugin(clk)
	cfg := sharedConfig.RetryConfig{
		Attempts: k.Attempts, InitialCooldownSeconds: k.Cooldown, CooldownMultiplier: k.Multiplier,
	}
	for _, r := range k.Ranges {
		cfg.Conditions.StatusCode = append(cfg.Conditions.StatusCode, sharedConfig.Range[int]{From: r[0], To: r[1]})
	}
	k.Outs = nil
	for n, ev := range k.Events {
		switch ev.Kind {
		case "advance":
			clk.advance(time.Duration(ev.Dt))
		case "fire":
			if err := clk.fire(); err != nil {
				return err
			}
		case "resp":
			seq := fmt.Sprintf("seq-%d", ev.Seq)
			id := fmt.Sprintf("tx-%d", n)
			if ev.New {
				id = seq
			}
			act, err := plugin.OnResponse(lunar_messages.OnResponse{
				ID: id, SequenceID: seq, Method: "GET", URL: engineHost + "/x", Status: ev.Status,
				Headers: map[string]string{}, Body: "{}", Time: clk.Now(),
			}, &cfg)
			if err := clk.settle(); err != nil {
				return err
			}
			switch a := act.(type) {
			case *actions.NoOpAction:
				k.Outs = append(k.Outs, "noop")
			case *actions.ModifyResponseAction:
				if _, ok := a.HeadersToSet[remedies.LunarRetryAfterHeaderName]; ok && err == nil {
					k.Outs = append(k.Outs, "retry")
				} else {
					k.Outs = append(k.Outs, "modify-without-retry-after")
				}
			default:
				k.Outs = append(k.Outs, fmt.Sprintf("unexpected(%T,%v)", act, err))
			}
		}
	}
	return nil
}

func coqPolicy(k *PolicyCase) string {
	rs := make([]string, len(k.Ranges))
	for i, r := range k.Ranges {
		rs[i] = c.Tuple(c.Z(int64(r[0])), c.Z(int64(r[1])))
	}
	evs := make([]string, len(k.Events))
	for i, e := range k.Events {
		switch e.Kind {
		case "resp":
			evs[i] = fmt.Sprintf("TResp %s %s %s", c.Z(int64(e.Seq)), c.B(e.New), c.Z(int64(e.Status)))
		case "advance":
			evs[i] = "TAdvance " + c.Z(e.Dt)
		default:
			evs[i] = "TFire"
		}
	}
	return c.Tuple(
		c.Tuple(c.Z(int64(k.Attempts)), c.Z(int64(k.Cooldown)), c.Z(int64(k.Multiplier)), c.List(rs)),
		c.Z(k.T0), c.List(evs),
		c.MapList(k.Outs, func(s string) string { return c.Z(polCode(s)) }),
	)
}

// monitorPolicy restates the policy-mode part of the property over what the
// plugin answered. A logical call = the responses of one sequence id from a
// response that opens it (ID = SequenceID) up to the next such response.
func monitorPolicy(k *PolicyCase) []c.Hit { return monitorPolicyTrace(k, Case{Policy: k}) }

// monitorPolicyTrace: k carries the responses as the CLIENT identified them
// (sequence id, opening or not, status) and the answers; cs is the case a hit
// is reported with.
func monitorPolicyTrace(k *PolicyCase, cs any) []c.Hit {
	var hits []c.Hit
	add := func(sig, dem, ob string) {
		hits = append(hits, c.Hit{Signature: sig, Demanded: dem, Observed: ob, Case: cs})
	}
	bound := k.Attempts
	if bound < 0 {
		bound = 0
	}
	opened := map[int]bool{}
	seg := map[int]int{}    // retries of the current call
	ended := map[int]bool{} // the previous call was ended (budget used up / non-retryable status)
	ri := 0
	for i, ev := range k.Events {
		if ev.Kind != "resp" {
			continue
		}
		out := k.Outs[ri]
		ri++
		retryable := inRanges(k.Ranges, ev.Status)
		if ev.New {
			if retryable && k.Attempts >= 1 && (ended[ev.Seq] || !opened[ev.Seq]) && out != "retry" {
				add("policy-fresh-start", "a new call (also one reusing a forgotten sequence id) gets a retry when attempts >= 1",
					fmt.Sprintf("event #%d: first response of sequence %d with status %d answered %s", i, ev.Seq, ev.Status, out))
			}
			opened[ev.Seq], seg[ev.Seq], ended[ev.Seq] = true, 0, false
		}
		if out == "retry" {
			if !ev.New && opened[ev.Seq] && ended[ev.Seq] {
				add("policy-retry-after-end", "once a call ended (non-retryable status / budget used up) its later responses are not retried",
					fmt.Sprintf("event #%d: status %d of sequence %d answered retry", i, ev.Status, ev.Seq))
			}
			if !retryable {
				add("policy-retry-outside-ranges", "a status outside the configured ranges is never retried",
					fmt.Sprintf("event #%d: status %d of sequence %d answered retry", i, ev.Status, ev.Seq))
			}
			if !opened[ev.Seq] {
				add("policy-retry-unopened", "no retry for a sequence whose first response was never seen",
					fmt.Sprintf("event #%d: sequence %d answered retry", i, ev.Seq))
			}
			seg[ev.Seq]++
			if seg[ev.Seq] > bound {
				sig := "policy-bound"
				if k.Attempts < 1 {
					sig = "policy-bound:attempts<1"
				}
				add(sig, fmt.Sprintf("at most %d retries per call (attempts = %d)", bound, k.Attempts),
					fmt.Sprintf("event #%d: retry #%d for sequence %d", i, seg[ev.Seq], ev.Seq))
			}
			if seg[ev.Seq] >= bound {
				ended[ev.Seq] = true
			}
		}
		if !retryable {
			ended[ev.Seq] = true
		}
	}
	return hits
}

// ------------------------------------------------------------------ runners

func runFlowProc(o *c.Out, suite string, k FlowProcCase) {
	execFlowProc(&k)
	o.Count(suite + ":events=" + bucket(len(k.Events)))
	nontrivial := false
	obs := make([]flowObs, len(k.Events))
	for i, ev := range k.Events {
		obs[i] = flowObs{proc: ev.Proc, seq: ev.Seq, out: k.Outs[i], retryable: true}
		if k.Outs[i] == "failed" {
			nontrivial = true
		}
		switch k.Outs[i] {
		case "retry", "failed", "other":
			o.Count(suite + ":out=" + k.Outs[i])
		default:
			o.Count(suite + ":out=unexpected")
		}
		if ev.Body != "" {
			o.Count(suite + ":body=" + ev.Body)
		}
	}
	for _, p := range k.Procs {
		o.Count(fmt.Sprintf("%s:attempts=%d", suite, p.Attempts))
	}
	cs := Case{FlowProc: &k}
	if suite == "flowbody" {
		cs = Case{FlowBody: &k}
		// non-trivial: a call ended with failed while responses of another
		// sequence lay between its responses
		nontrivial = nontrivial && interleaved(k.Events)
	}
	idx := o.Case(suite, coqFlowProc(&k), cs, nontrivial)
	o.MonitorChecked(1)
	hits := monitorFlow(obs, func(p int) int { return k.Procs[p].Attempts }, cs)
	for i, out := range k.Outs {
		if out != "retry" && out != "failed" && out != "other" {
			hits = append(hits, c.Hit{Signature: "flow-no-answer:" + suite,
				Demanded: "the retry processor answers every response it is given with retry or failed",
				Observed: fmt.Sprintf("response #%d: %s", i, out), Case: cs})
			break
		}
	}
	for _, h := range hits {
		h.Suite, h.Index = suite, idx
		if suite == "flowbody" && len(k.SeqIDs) == len(k.Events) {
			for i, ev := range k.Events {
				if ev.Body != "" && k.SeqIDs[i] != fmt.Sprintf("seq-%d", ev.Seq) {
					h.Observed += fmt.Sprintf(" [the stream built for response #%d (sequence seq-%d, body %s) reports sequence id %q]", i, ev.Seq, ev.Body, k.SeqIDs[i])
					break
				}
			}
		}
		o.Hit(h)
	}
}

func interleaved(evs []ProcEv) bool {
	last := map[[2]int]int{}
	for i, e := range evs {
		key := [2]int{e.Proc, e.Seq}
		if j, ok := last[key]; ok {
			for _, m := range evs[j+1 : i] {
				if m.Proc == e.Proc && m.Seq != e.Seq {
					return true
				}
			}
		}
		last[key] = i
	}
	return false
}

func runEngine(o *c.Out, k EngineCase) {
	if err := execEngine(&k); err != nil {
		fmt.Fprintln(os.Stderr, "engine:", err)
		os.Exit(3)
	}
	o.Count("flowengine:events=" + bucket(len(k.Events)))
	o.Count(fmt.Sprintf("flowengine:init_ok=%v", k.InitOK))
	nontrivial := false
	var obs []flowObs
	if k.InitOK {
		for i, ev := range k.Events {
			retryable := false
			for _, s := range k.Stages {
				if ev.Status >= s.From && ev.Status <= s.To {
					retryable = true
				}
			}
			obs = append(obs, flowObs{proc: k.Ran[i], seq: ev.Seq, out: k.Outs[i], retryable: retryable})
			if k.Outs[i] == "failed" {
				nontrivial = true
			}
			o.Count("flowengine:out=" + k.Outs[i])
		}
	}
	idx := o.Case("flowengine", coqEngine(&k), Case{Engine: &k}, nontrivial)
	o.MonitorChecked(1)
	att := func(p int) int {
		if p >= 0 && p < len(k.Stages) {
			return k.Stages[p].Attempts
		}
		return 0
	}
	hits := monitorFlow(obs, att, Case{Engine: &k})
	// the state itself: after a response outside the retry conditions the
	// gateway holds no retry counter for the sequence
	if k.InitOK {
		for i, ev := range k.Events {
			if !obs[i].retryable && k.Outs[i] == "other" && len(k.Kept[i]) > 0 {
				hits = append(hits, c.Hit{Signature: sigCounterKept,
					Demanded: "a response outside the retry conditions ends the sequence (the gateway forgets it)",
					Observed: fmt.Sprintf("response #%d (status %d) of sequence %d: the flow context still holds the retry counter of stage(s) %v", i, ev.Status, ev.Seq, k.Kept[i]),
					Case:     Case{Engine: &k}})
				break
			}
		}
	}
	for _, h := range hits {
		if h.Signature == sigCounterKept {
			if strings.HasPrefix(h.Observed, "response #") && strings.Contains(h.Observed, ": failed after") {
				o.Count("flowengine:F-C17b=early-failed")
			} else {
				o.Count("flowengine:F-C17b=counter-in-flow-context")
			}
		}
		h.Suite, h.Index = "flowengine", idx
		o.Hit(h)
	}
}

func runPolicy(o *c.Out, k PolicyCase) {
	if err := execPolicy(&k); err != nil {
		fmt.Fprintln(os.Stderr, "policy:", err)
		os.Exit(3)
	}
	o.Count("policy:events=" + bucket(len(k.Events)))
	o.Count(fmt.Sprintf("policy:attempts=%d", k.Attempts))
	retries, noopInRange, fires := 0, 0, 0
	ri := 0
	for _, ev := range k.Events {
		switch ev.Kind {
		case "resp":
			if k.Outs[ri] == "retry" {
				retries++
			} else if inRanges(k.Ranges, ev.Status) {
				noopInRange++
			}
			o.Count("policy:out=" + k.Outs[ri])
			ri++
		case "fire":
			fires++
		}
	}
	idx := o.Case("policy", coqPolicy(&k), Case{Policy: &k}, retries > 0 && noopInRange > 0)
	o.MonitorChecked(1)
	for _, h := range monitorPolicy(&k) {
		h.Suite, h.Index = "policy", idx
		o.Hit(h)
	}
}

func bucket(n int) string {
	switch {
	case n <= 4:
		return "00-04"
	case n <= 8:
		return "05-08"
	case n <= 12:
		return "09-12"
	case n <= 16:
		return "13-16"
	}
	return "17+"
}

// ------------------------------------------------------------------ generators

const sec = int64(time.Second)
const t0 = int64(1_700_000_000) * sec

func genFlowProc(o *c.Out) {
	r := o.Rng
	// small scope: one processor, two sequences, every event string up to a bound
	maxLen := o.Scale(7, 10, 8)
	for _, a := range []int{-1, 0, 1, 2, 3, 4} {
		for l := 1; l <= maxLen; l++ {
			if a < 1 && l > 1 {
				continue // refused at load: nothing to execute
			}
			for bits := 0; bits < 1<<l; bits++ {
				k := FlowProcCase{Procs: []ProcCfg{{Attempts: a}}}
				for j := 0; j < l; j++ {
					k.Events = append(k.Events, ProcEv{Proc: 0, Seq: 1 + bits>>j&1})
				}
				runFlowProc(o, "flowproc", k)
			}
		}
	}
	// random: two processors sharing the flow context, three sequences,
	// cool-down settings varied (they must not matter)
	mults := []float64{0, 0.5, 1, 1.5, 2}
	for i := 0; i < o.Scale(700, 20000, 15000); i++ {
		k := FlowProcCase{}
		for p := 0; p < 2; p++ {
			a := r.Range(1, 4)
			if r.Chance(1, 8) {
				a = r.Range(-1, 0)
			}
			k.Procs = append(k.Procs, ProcCfg{a, r.Range(0, 2), c.Pick(r, mults)})
		}
		n := r.Range(1, 24)
		hot := r.Range(1, 3) // one sequence gets most of the traffic so that rounds complete
		for j := 0; j < n; j++ {
			s := hot
			if r.Chance(1, 3) {
				s = r.Range(1, 3)
			}
			p := 0
			if r.Chance(1, 4) {
				p = 1
			}
			k.Events = append(k.Events, ProcEv{Proc: p, Seq: s})
		}
		runFlowProc(o, "flowproc", k)
	}
}

func genEngine(o *c.Out) {
	r := o.Rng
	for i := 0; i < o.Scale(500, 12000, 8000); i++ {
		preset := c.Pick(r, rangePresets)
		k := EngineCase{}
		for _, rg := range preset {
			a := r.Range(1, 4)
			if r.Chance(1, 12) {
				a = r.Range(-1, 0)
			}
			k.Stages = append(k.Stages, Stage{rg[0], rg[1], a})
		}
		var statuses []int
		for _, rg := range preset {
			statuses = append(statuses, rg[0]-1, rg[0], rg[1], rg[1]+1)
		}
		statuses = append(statuses, 200, 404, 600)
		n := r.Range(1, 24)
		hot := r.Range(1, 3)
		hotStatus := preset[r.Intn(len(preset))][0]
		for j := 0; j < n; j++ {
			s := hot
			if r.Chance(1, 3) {
				s = r.Range(1, 3)
			}
			st := hotStatus
			if r.Chance(1, 3) {
				st = c.Pick(r, statuses)
			}
			k.Events = append(k.Events, EngEv{s, st})
		}
		runEngine(o, k)
	}
}

func genPolicy(o *c.Out) {
	r := o.Rng
	// small scope: one sequence, every string over {first response / later
	// response} x {retryable, not} up to a bound, every attempts value, no time
	maxLen := o.Scale(4, 6, 5)
	for _, a := range []int{-1, 0, 1, 2, 3, 4} {
		for l := 1; l <= maxLen; l++ {
			total := 1
			for j := 0; j < l; j++ {
				total *= 4
			}
			for code := 0; code < total; code++ {
				k := PolicyCase{Attempts: a, Cooldown: 1, Multiplier: 2, Ranges: [][2]int{{500, 599}}, T0: t0}
				x := code
				for j := 0; j < l; j++ {
					d := x % 4
					x /= 4
					st := 500
					if d&1 == 1 {
						st = 404
					}
					k.Events = append(k.Events, PolEv{Kind: "resp", Seq: 1, New: d&2 == 2, Status: st})
				}
				runPolicy(o, k)
			}
		}
	}
	// burst: a call in progress, then thousands of other calls each failing once
	// (no clock movement, so every one of them is still tracked), then the first
	// call keeps failing: its retry budget must not be refreshed or frozen by how
	// many other sequences the store holds
	for _, a := range []int{3, 2, 4}[:o.Scale(1, 3, 1)] { // >= 3: a stored state is updated (not only created and deleted)
		k := PolicyCase{Attempts: a, Cooldown: 1, Multiplier: 2, Ranges: [][2]int{{500, 599}}, T0: t0}
		k.Events = append(k.Events, PolEv{Kind: "resp", Seq: 1, New: true, Status: 500})
		others := o.Scale(5000, 12000, 5000) // the model keeps an association list: cost is quadratic
		for s := 2; s < 2+others; s++ {
			k.Events = append(k.Events, PolEv{Kind: "resp", Seq: s, New: true, Status: 500})
		}
		for j := 0; j < a+4; j++ {
			k.Events = append(k.Events, PolEv{Kind: "resp", Seq: 1, New: false, Status: 500})
		}
		o.Count("policy:burst")
		runPolicy(o, k)
	}
	// random: three interleaved sequences, clock movement around the ttl of the
	// stored state, sleepers released or not
	presets := append([][][2]int{{}, {{503, 500}}}, rangePresets...)
	for i := 0; i < o.Scale(1800, 40000, 30000); i++ {
		k := PolicyCase{Attempts: r.Range(-1, 4), Cooldown: c.Pick(r, []int{0, 1, 5}),
			Multiplier: c.Pick(r, []int{0, 1, 2, 3}), T0: t0 + int64(r.Intn(1000))}
		if r.Chance(1, 2) {
			k.Attempts = r.Range(1, 4)
		}
		k.Ranges = c.Pick(r, presets)
		if r.Chance(2, 3) {
			k.Ranges = rangePresets[r.Intn(2)]
		}
		var statuses []int
		for _, rg := range k.Ranges {
			statuses = append(statuses, rg[0]-1, rg[0], rg[1], rg[1]+1)
		}
		statuses = append(statuses, 200, 503)
		good := 500
		cd := int64(k.Cooldown)
		m := int64(k.Multiplier)
		dts := []int64{0, 1, sec, 30 * sec, 31*sec - 1, 31 * sec, 31*sec + 1,
			(31+cd)*sec - 1, (31 + cd) * sec, (31+cd)*sec + 1,
			(31+cd*m)*sec - 1, (31 + cd*m) * sec, (31+cd*m)*sec + 1,
			(31+cd*m*m)*sec - 1, (31 + cd*m*m) * sec, (31+cd*m*m)*sec + 1, 100 * sec, 1000 * sec}
		seen := map[int]bool{}
		n := r.Range(1, 16)
		timed := r.Chance(1, 2)
		hot := r.Range(1, 3)
		for j := 0; j < n; j++ {
			if timed && r.Chance(1, 3) {
				k.Events = append(k.Events, PolEv{Kind: "advance", Dt: c.Pick(r, dts)})
				if r.Chance(2, 3) {
					k.Events = append(k.Events, PolEv{Kind: "fire"})
				}
			} else if timed && r.Chance(1, 10) {
				k.Events = append(k.Events, PolEv{Kind: "fire"})
			}
			s := hot
			if r.Chance(1, 3) {
				s = r.Range(1, 3)
			}
			isNew := !seen[s]
			if r.Chance(1, 10) {
				isNew = !isNew // protocol violations: late / repeated / missing opening
			}
			seen[s] = true
			st := good
			if r.Chance(1, 4) {
				st = c.Pick(r, statuses)
			}
			k.Events = append(k.Events, PolEv{Kind: "resp", Seq: s, New: isNew, Status: st})
		}
		runPolicy(o, k)
	}
}

func main() {
	zerolog.SetGlobalLevel(zerolog.Disabled)
	// the retry processor checks the total cool-down against this; keep it out of the way
	os.Setenv("LUNAR_RETRY_REQUEST_TIMEOUT_SEC", "1000000")
	o := c.NewOut("C17")
	o.DeclareSuite("policy", "From Verif Require Import C17.Model.", "case_policy", "run_policy")
	o.DeclareSuite("flowproc", "From Verif Require Import C17.Model.", "case_flowproc", "run_flowproc")
	o.DeclareSuite("flowengine", "From Verif Require Import C17.Model.", "case_flowengine", "run_flowengine")
	o.DeclareSuite("flowbody", "From Verif Require Import C17.Model.", "case_flowproc", "run_flowproc")
	o.DeclareSuite("dispatch", "From Verif Require Import C17.Model C17.Ident.", "case_dispatch", "run_dispatch")
	o.Rule("policy: every response string (first/later x retryable/not) of one sequence up to a length bound x attempts -1..4, " +
		"then random histories of 3 interleaved sequences with clock steps around the ttl and sleeper firings; " +
		"flowproc: every event string of 2 sequences on one processor up to a bound x attempts -1..4, then random histories on " +
		"2 processors sharing the flow context x 3 sequences; flowengine: random (sequence, status) histories through a loaded " +
		"Filter->Retry flow; flowbody: the flowproc histories with streams built by NewResponseAPIStream from responses with " +
		"decodable and undecodable bodies (9 kinds), every string of 2 sequences up to a bound per kind, then random mixes; " +
		"dispatch: requests through runner.DispatchOnRequest/DispatchOnResponse with a retry remedy and a fixed-response / " +
		"throttling remedy answering inside the retry conditions: attempts+2.. consecutive gateway-made responses of 1-3 " +
		"round-robin sequences, then random mixes of early and provider responses; the cases are RAW transactions (id, sequence id header absent / naming itself / naming a call, early flag) and the model derives which sequence is charged; patient (all suites): attempts 255, 256, 300, 1000 " +
		"with cool-down 0 and one call (or two interleaved) that keeps failing past attempts+1 responses, then the id reused; distinct = distinct (settings, history, observed answers); non-trivial = flows: some round ended " +
		"with failed (flowbody: and responses of another sequence lay between those of the call); dispatch: a sequence got more " +
		"gateway-made retryable responses than attempts and both answers occurred; policy: at least one retry and at least one retryable response answered noop")
	var k Case
	if _, ok := o.ReplayCase(&k); ok {
		switch {
		case k.Policy != nil:
			runPolicy(o, *k.Policy)
		case k.FlowProc != nil:
			runFlowProc(o, "flowproc", *k.FlowProc)
		case k.FlowBody != nil:
			runFlowProc(o, "flowbody", *k.FlowBody)
		case k.Dispatch != nil:
			runDispatch(o, *k.Dispatch)
		case k.Engine != nil:
			runEngine(o, *k.Engine)
		}
		o.Finish()
		return
	}
	genPolicy(o) // first: its goroutine accounting wants a quiet process
	genFlowProc(o)
	genEngine(o)
	genFlowBody(o)
	genDispatch(o)
	genPatient(o)
	o.Finish()
}
