package main

// Two suites about WHICH sequence the retry state is charged to.
//
//	dispatch  policy mode through the real dispatcher (runner.DispatchOnRequest /
//	          runner.DispatchOnResponse, services.Initialize wiring): an endpoint
//	          with a retry remedy AND a request-side remedy that answers the
//	          request itself (fixed response; strategy-based throttling) with a
//	          status inside the retry conditions. The dispatcher builds the
//	          OnResponse of such an early response itself and hands it to the
//	          response remedies. Whether a request was answered by the gateway is
//	          OBSERVED (return_early_response), not assumed: a request that goes
//	          through gets a provider response through DispatchOnResponse.
//	flowbody  flows mode through the real stream constructor
//	          stream_types.NewResponseAPIStream with bodies that can and cannot be
//	          decoded (content-encoding gzip/deflate on plain text, truncated and
//	          corrupted gzip, unknown encoding, empty body), interleaved sequences
//	          through Retry processors sharing the flow context.
//
// Both reuse the model entry points of the policy / flowproc suites: for the
// code as it should be, an early response is a response of the request's
// sequence (opening iff ID = SequenceID) and the body of a response is
// irrelevant (theories/C17/Ident.v states both, with the seeded variants
// refuted). The monitors are the policy / flows monitors, applied to the ids
// the CLIENT used (request id, sequence id), never to what the gateway derived.

import (
	"bytes"
	"compress/gzip"
	"compress/zlib"
	"fmt"
	"os"
	"strings"
	"time"

	"lunar/engine/actions"
	"lunar/engine/config"
	lunar_messages "lunar/engine/messages"
	"lunar/engine/runner"
	"lunar/engine/services"
	"lunar/engine/services/remedies"
	public_types "lunar/engine/streams/public-types"
	stream_types "lunar/engine/streams/types"
	sharedConfig "lunar/shared-model/config"
	contextmanager "lunar/toolkit-core/context-manager"

	c "verifharness/common"
)

// ------------------------------------------------------------------ dispatch

// DispEv is one HTTP transaction as HAProxy hands it to the gateway (ID,
// sequence id header) plus what the harness observed at the real dispatcher.
// Seq / New are NOT inputs: identify() derives them (Go mirror of
// theories/C17/Ident.v dx_seq + dev_gev KeySequence) for the monitor; the Coq
// side derives them itself from the raw fields and cross-checks the mirror.
type DispEv struct {
	ID         int    `json:"id"`                   // transaction id (HAProxy unique-id), token
	HasHdr     bool   `json:"has_seq_header"`       // the request carries x-lunar-sequence-id
	Hdr        int    `json:"seq_header,omitempty"` // its value (token)
	AskEarly   bool   `json:"ask_early"`            // fixed-response remedy: the header that makes it answer
	ProvStatus int    `json:"provider_status"`      // status of the provider's response when the request goes through
	Early      bool   `json:"early,omitempty"`      // observed: the gateway answered the request itself
	Status     int    `json:"status,omitempty"`     // observed: status of the response the remedies saw
	Note       string `json:"note,omitempty"`       // observed: anything unexpected (not compared)
	Seq        int    `json:"seq"`                  // derived (mirror): sequence charged
	New        bool   `json:"is_new"`               // derived (mirror): the transaction opens the sequence
}

// txn builds the n-th transaction of a case: a request that opens sequence seq
// has the transaction id seq and no sequence id header (or, hdrOnOpen, a header
// naming itself); a later request of the call has a transaction id of its own
// and the header naming the call.
func txn(n, seq int, opening, hdrOnOpen, askEarly bool, prov int) DispEv {
	ev := DispEv{AskEarly: askEarly, ProvStatus: prov}
	if opening {
		ev.ID = seq
		if hdrOnOpen {
			ev.HasHdr, ev.Hdr = true, seq
		}
	} else {
		ev.ID = 1000 + n
		ev.HasHdr, ev.Hdr = true, seq
	}
	identify(&ev)
	return ev
}

// identify: what HAProxy makes the SequenceID (rootfs/etc/haproxy/haproxy.cfg:
// the header when present, else the unique-id) and whether the transaction
// opens the sequence (ID = SequenceID). Mirror of Ident.v dx_seq / dx_client.
func identify(ev *DispEv) {
	ev.Seq = ev.ID
	if ev.HasHdr {
		ev.Seq = ev.Hdr
	}
	ev.New = ev.ID == ev.Seq
}

type DispatchCase struct {
	Attempts    int      `json:"attempts"`
	Cooldown    int      `json:"initial_cooldown_s"`
	Multiplier  int      `json:"cooldown_multiplier"`
	Ranges      [][2]int `json:"status_ranges"`
	Remedy      string   `json:"request_remedy"` // fixed | throttle
	EarlyStatus int      `json:"early_status"`
	Allowed     int      `json:"throttle_allowed"` // throttle: requests let through per (unmoving) window
	RetryFirst  bool     `json:"retry_remedy_first"`
	Events      []DispEv `json:"events"`
	Outs        []string `json:"outs"`
}

type nullWriter struct{}

func (nullWriter) Write(b []byte) (int, error) { return len(b), nil }
func (nullWriter) Close() error                { return nil }

// parkClock: a clock.Clock that never moves; Sleep parks until release().
type parkClock struct{ *simClock }

func (p parkClock) release() {
	p.mu.Lock()
	all := p.parked
	p.parked = nil
	p.mu.Unlock()
	for _, w := range all {
		close(w.ch)
	}
}

const dispatchURL = engineHost + "/orders"

func headerDumpHasRetry(v any) bool {
	return strings.Contains(strings.ToLower(fmt.Sprint(v)), remedies.LunarRetryAfterHeaderName)
}

func execDispatch(k *DispatchCase) (err error) {
	clk := parkClock{&simClock{now: time.Unix(1_700_000_000, 0)}}
	contextmanager.Get().VerifC11SetClock(clk)
	defer func() {
		clk.release()
		contextmanager.Get().SetRealClock()
	}()
	retry := sharedConfig.Remedy{Name: "retry", Enabled: true, Config: sharedConfig.RemedyConfig{
		Retry: &sharedConfig.RetryConfig{Attempts: k.Attempts, InitialCooldownSeconds: k.Cooldown, CooldownMultiplier: k.Multiplier},
	}}
	for _, r := range k.Ranges {
		retry.Config.Retry.Conditions.StatusCode = append(retry.Config.Retry.Conditions.StatusCode,
			sharedConfig.Range[int]{From: r[0], To: r[1]})
	}
	var front sharedConfig.Remedy
	switch k.Remedy {
	case "throttle":
		front = sharedConfig.Remedy{Name: "throttle", Enabled: true, Config: sharedConfig.RemedyConfig{
			StrategyBasedThrottling: &sharedConfig.StrategyBasedThrottlingConfig{
				AllowedRequestCount: int64(k.Allowed), WindowSizeInSeconds: 3600, ResponseStatusCode: k.EarlyStatus,
			},
		}}
	default:
		front = sharedConfig.Remedy{Name: "fixed", Enabled: true, Config: sharedConfig.RemedyConfig{
			FixedResponse: &sharedConfig.FixedResponseConfig{StatusCode: k.EarlyStatus},
		}}
	}
	rem := []sharedConfig.Remedy{front, retry}
	if k.RetryFirst {
		rem = []sharedConfig.Remedy{retry, front}
	}
	tree, err := config.BuildEndpointPolicyTree([]sharedConfig.EndpointConfig{{Method: "GET", URL: dispatchURL, Remedies: rem}})
	if err != nil {
		return fmt.Errorf("policy tree: %w", err)
	}
	policies := &sharedConfig.PoliciesConfig{Global: sharedConfig.Global{
		Remedies: []sharedConfig.Remedy{}, Diagnosis: []sharedConfig.Diagnosis{},
	}}
	svc, err := services.Initialize(nullWriter{}, 15*time.Second, sharedConfig.Exporters{})
	if err != nil {
		return fmt.Errorf("services: %w", err)
	}
	worker := runner.NewDiagnosisWorker()
	k.Outs = nil
	for n := range k.Events {
		ev := &k.Events[n]
		ev.Early, ev.Status, ev.Note = false, 0, ""
		out := dispatchOne(k, ev, n, tree, policies, svc, worker, clk)
		k.Outs = append(k.Outs, out)
	}
	return nil
}

// dispatchOne sends one request of the case through the dispatcher (and, when
// the gateway lets it through, the provider's response). A panic inside the
// gateway is an observation ("panic: ..."), not a harness failure.
func dispatchOne(k *DispatchCase, ev *DispEv, n int, tree *config.EndpointPolicyTree,
	policies *sharedConfig.PoliciesConfig, svc *services.PoliciesServices, worker *runner.DiagnosisWorker, clk parkClock,
) (out string) {
	defer func() {
		if r := recover(); r != nil {
			out = fmt.Sprintf("panic: %v", r)
			ev.Status = ev.ProvStatus
		}
	}()
	// what HAProxy sends: id = unique-id, sequence_id = the header when present,
	// else the unique-id (the raw fields only; ev.Seq / ev.New are not read here)
	id := fmt.Sprintf("id-%d", ev.ID)
	seq := id
	headers := map[string]string{"host": engineHost}
	if ev.HasHdr {
		seq = fmt.Sprintf("id-%d", ev.Hdr)
		headers["x-lunar-sequence-id"] = seq
	}
	if ev.AskEarly {
		headers["early-response"] = "true"
	}
	acts, err := runner.DispatchOnRequest(lunar_messages.OnRequest{
		ID: id, SequenceID: seq, Method: "GET", Scheme: "https", URL: dispatchURL, Path: "/orders",
		Headers: headers, Time: clk.Now(),
	}, tree, policies, svc, worker)
	if err != nil {
		ev.Status = ev.ProvStatus
		return "request-error: " + err.Error()
	}
	hasRetry := false
	for _, a := range acts {
		switch a.Name {
		case actions.ReturnEarlyResponseActionName:
			ev.Early = true
		case actions.StatusCodeActionName:
			if v, ok := a.Value.(int); ok {
				ev.Status = v
			} else {
				fmt.Sscan(fmt.Sprint(a.Value), &ev.Status)
			}
		case actions.ResponseHeadersActionName:
			hasRetry = headerDumpHasRetry(a.Value)
		}
	}
	if ev.Early {
		if ev.Status != k.EarlyStatus {
			ev.Note = fmt.Sprintf("status_code action says %d", ev.Status)
		}
		ev.Status = k.EarlyStatus // what the request-side remedy is configured to answer
		if hasRetry {
			return "retry"
		}
		return "noop"
	}
	// the request goes to the provider; its response comes back
	ev.Status = ev.ProvStatus
	racts, err := runner.DispatchOnResponse(lunar_messages.OnResponse{
		LunarName: lunar_messages.LunarFullResponse,
		ID:        id, SequenceID: seq, Method: "GET", URL: dispatchURL, Status: ev.ProvStatus,
		Headers: map[string]string{}, Body: "{}", Time: clk.Now(),
	}, tree, &policies.Global, svc, worker)
	if err != nil {
		return "response-error: " + err.Error()
	}
	for _, a := range racts {
		if a.Name == actions.ResponseHeadersActionName && headerDumpHasRetry(a.Value) {
			return "retry"
		}
	}
	return "noop"
}

// the responses the remedies were to see, in the vocabulary of the policy
// suite. Go MIRROR of the model's identification step (Ident.v: dc_ident =
// dx_seq + dev_gev KeySequence): it feeds the monitor only. The suite's Coq
// evaluation (run_dispatch) derives the same list itself from the raw
// transactions and compares it with this one (field dcMirror).
func dispatchAsPolicy(k *DispatchCase) *PolicyCase {
	p := &PolicyCase{Attempts: k.Attempts, Cooldown: k.Cooldown, Multiplier: k.Multiplier, Ranges: k.Ranges, T0: 0, Outs: k.Outs}
	for i := range k.Events {
		ev := &k.Events[i]
		identify(ev)
		p.Events = append(p.Events, PolEv{Kind: "resp", Seq: ev.Seq, New: ev.New, Status: ev.Status})
	}
	return p
}

// coqDispatch: the RAW case (theories/C17/Ident.v case_dispatch): no sequence
// charged, no opening flag, no status chosen — only ids, header, early flag,
// provider status, configured early status; plus the mirror and the answers.
func coqDispatch(k *DispatchCase, mirror *PolicyCase) string {
	rs := make([]string, len(k.Ranges))
	for i, r := range k.Ranges {
		rs[i] = c.Tuple(c.Z(int64(r[0])), c.Z(int64(r[1])))
	}
	txns := make([]string, len(k.Events))
	for i, e := range k.Events {
		hdr := "None"
		if e.HasHdr {
			hdr = "(Some " + c.Z(int64(e.Hdr)) + ")"
		}
		txns[i] = fmt.Sprintf("Build_dtxn %s %s %s %s", c.Z(int64(e.ID)), hdr, c.B(e.Early), c.Z(int64(e.ProvStatus)))
	}
	mir := make([]string, len(mirror.Events))
	for i, e := range mirror.Events {
		mir[i] = c.Tuple(c.Z(int64(e.Seq)), c.B(e.New), c.Z(int64(e.Status)))
	}
	return fmt.Sprintf("Build_case_dispatch %s %s %s %s %s %s %s %s",
		c.Z(int64(k.Attempts)), c.Z(int64(k.Cooldown)), c.Z(int64(k.Multiplier)), c.List(rs),
		c.Z(int64(k.EarlyStatus)), c.List(txns), c.List(mir),
		c.MapList(k.Outs, func(s string) string { return c.Z(polCode(s)) }))
}

func runDispatch(o *c.Out, k DispatchCase) {
	if err := execDispatch(&k); err != nil {
		fmt.Fprintln(os.Stderr, "dispatch:", err)
		os.Exit(3)
	}
	o.Count("dispatch:remedy=" + k.Remedy)
	o.Count(fmt.Sprintf("dispatch:attempts=%d", k.Attempts))
	p := dispatchAsPolicy(&k)
	perSeq := map[int]int{}
	maxRun, retries, earlyIn, noopIn := 0, 0, 0, 0
	for i, ev := range k.Events {
		if ev.Early && inRanges(k.Ranges, ev.Status) {
			earlyIn++
			perSeq[ev.Seq]++
			if perSeq[ev.Seq] > maxRun {
				maxRun = perSeq[ev.Seq]
			}
			if k.Outs[i] == "noop" {
				noopIn++
			}
		}
		if k.Outs[i] == "retry" {
			retries++
		}
		switch {
		case !ev.HasHdr:
			o.Count("dispatch:txn=no-seq-header")
		case ev.Hdr == ev.ID:
			o.Count("dispatch:txn=seq-header-names-itself")
		default:
			o.Count("dispatch:txn=seq-header-names-a-call")
		}
		switch {
		case k.Outs[i] == "retry" || k.Outs[i] == "noop":
			o.Count(fmt.Sprintf("dispatch:early=%v:out=%s", ev.Early, k.Outs[i]))
		default:
			o.Count("dispatch:out=other")
		}
	}
	bound := k.Attempts
	if bound < 0 {
		bound = 0
	}
	// non-trivial: some sequence got more gateway-made retryable responses than
	// its budget, and both answers occurred
	nontrivial := maxRun > bound && retries > 0 && noopIn > 0
	idx := o.Case("dispatch", coqDispatch(&k, p), Case{Dispatch: &k}, nontrivial)
	o.MonitorChecked(1)
	for _, h := range monitorPolicyTrace(p, Case{Dispatch: &k}) {
		h.Suite, h.Index = "dispatch", idx
		h.Signature = "dispatch:" + h.Signature
		o.Hit(h)
	}
	for i, out := range k.Outs {
		if out != "retry" && out != "noop" {
			o.Hit(c.Hit{Suite: "dispatch", Index: idx, Signature: "dispatch:no-answer",
				Demanded: "every request / response gets an answer from the dispatcher",
				Observed: fmt.Sprintf("event #%d: %s", i, out), Case: Case{Dispatch: &k}})
			break
		}
	}
}

func genDispatch(o *c.Out) {
	r := o.Rng
	mk := func(a int, remedy string, st int) DispatchCase {
		return DispatchCase{Attempts: a, Cooldown: 1, Multiplier: 2, Ranges: [][2]int{{429, 429}, {500, 599}},
			Remedy: remedy, EarlyStatus: st, Allowed: 1}
	}
	// small scope: attempts+2 (and more) consecutive gateway-made responses of one
	// sequence; of 2 and 3 sequences round-robin; first request opening or not
	for _, a := range []int{-1, 0, 1, 2, 3, 4} {
		for _, remedy := range []string{"fixed", "throttle"} {
			for _, nseq := range []int{1, 2, 3} {
				for _, extra := range []int{2, 4} {
					k := mk(a, remedy, 503)
					if remedy == "throttle" {
						k.EarlyStatus = 429
						k.Allowed = nseq - 1 // the first requests go through to the provider
					}
					bound := a
					if bound < 0 {
						bound = 0
					}
					for round := 0; round < bound+extra; round++ {
						for s := 1; s <= nseq; s++ {
							k.Events = append(k.Events, txn(len(k.Events), s, round == 0, (s+a)%2 == 0, true, 500))
						}
					}
					k.RetryFirst = extra == 4
					runDispatch(o, k)
				}
			}
		}
	}
	// random: three interleaved sequences, early and provider responses mixed,
	// statuses in and outside the conditions, 10 % protocol violations
	for i := 0; i < o.Scale(500, 6000, 4000); i++ {
		k := DispatchCase{Attempts: r.Range(1, 4), Cooldown: c.Pick(r, []int{0, 1, 5}), Multiplier: c.Pick(r, []int{0, 1, 2}),
			Remedy: "fixed", Allowed: 0, RetryFirst: r.Chance(1, 3)}
		if r.Chance(1, 8) {
			k.Attempts = r.Range(-1, 0)
		}
		k.Ranges = rangePresets[r.Intn(3)]
		k.EarlyStatus = c.Pick(r, []int{k.Ranges[0][0], k.Ranges[len(k.Ranges)-1][1], 503, 503, 429, 200, 404})
		if r.Chance(1, 3) {
			k.Remedy = "throttle"
			k.Allowed = r.Range(0, 4)
		}
		var statuses []int
		for _, rg := range k.Ranges {
			statuses = append(statuses, rg[0]-1, rg[0], rg[1], rg[1]+1)
		}
		statuses = append(statuses, 200, 503)
		seen := map[int]bool{}
		hot := r.Range(1, 3)
		n := r.Range(2, 18)
		for j := 0; j < n; j++ {
			s := hot
			if r.Chance(1, 3) {
				s = r.Range(1, 3)
			}
			isNew := !seen[s]
			if r.Chance(1, 10) {
				isNew = !isNew
			}
			seen[s] = true
			st := 503
			if r.Chance(1, 4) {
				st = c.Pick(r, statuses)
			}
			ev := txn(len(k.Events), s, isNew, r.Chance(1, 3), r.Chance(3, 4), st)
			if !isNew && r.Chance(1, 12) {
				// a request without the header in the middle of the history: a call of
				// its own (sequence = its transaction id), one transaction long
				ev.HasHdr, ev.Hdr = false, 0
				identify(&ev)
			}
			k.Events = append(k.Events, ev)
		}
		runDispatch(o, k)
	}
}

// ------------------------------------------------------------------ flowbody

var bodyKinds = []string{"plain", "gzip-ok", "gzip-on-plain", "gzip-truncated", "gzip-corrupt",
	"deflate-ok", "deflate-on-plain", "unknown-br", "empty-gzip"}

const plainBody = `{"error":"bad gateway","detail":"upstream connect error or disconnect/reset before headers"}`

// bodyFor returns content-encoding ("" = header absent) and raw body
func bodyFor(kind string) (string, []byte) {
	gz := func() []byte {
		var b bytes.Buffer
		w := gzip.NewWriter(&b)
		_, _ = w.Write([]byte(plainBody))
		_ = w.Close()
		return b.Bytes()
	}
	switch kind {
	case "gzip-ok":
		return "gzip", gz()
	case "gzip-on-plain":
		return "gzip", []byte("<html><body>502 Bad Gateway</body></html>")
	case "gzip-truncated":
		b := gz()
		return "gzip", b[:len(b)/2]
	case "gzip-corrupt":
		b := gz()
		b[len(b)-5] ^= 0xff // CRC
		return "gzip", b
	case "deflate-ok":
		var b bytes.Buffer
		w := zlib.NewWriter(&b)
		_, _ = w.Write([]byte(plainBody))
		_ = w.Close()
		return "deflate", b.Bytes()
	case "deflate-on-plain":
		return "deflate", []byte(plainBody)
	case "unknown-br":
		return "br", []byte{0x8b, 0x08, 0x80, 0x7b, 0x22, 0x7d, 0x03}
	case "empty-gzip":
		return "gzip", nil
	}
	return "", []byte(plainBody)
}

// responseStream builds the API stream of a response message the way
// routing.processResponse does.
func responseStream(id, seq, kind string, shared public_types.SharedStateI[[]byte]) public_types.APIStreamI {
	enc, raw := bodyFor(kind)
	headers := map[string]string{"content-type": "application/json"}
	if enc != "" {
		headers["content-encoding"] = enc
	}
	return stream_types.NewResponseAPIStream(lunar_messages.OnResponse{
		LunarName: lunar_messages.LunarFullResponse,
		ID:        id, SequenceID: seq, Method: "GET", URL: engineHost + "/x", Status: 502,
		Headers: headers, RawBody: raw,
	}, shared)
}

func genFlowBody(o *c.Out) {
	r := o.Rng
	bad := []string{"gzip-on-plain", "gzip-truncated", "gzip-corrupt", "deflate-on-plain"}
	// small scope: one processor, two sequences, every event string up to a
	// bound, every response with the same body kind
	maxLen := o.Scale(5, 7, 5)
	for _, kind := range bodyKinds {
		for _, a := range []int{1, 2, 3} {
			for l := 2; l <= maxLen; l++ {
				for bits := 0; bits < 1<<l; bits++ {
					k := FlowProcCase{Procs: []ProcCfg{{Attempts: a}}}
					for j := 0; j < l; j++ {
						k.Events = append(k.Events, ProcEv{Proc: 0, Seq: 1 + bits>>j&1, Body: kind})
					}
					runFlowProc(o, "flowbody", k)
				}
			}
		}
	}
	// random: two processors, three sequences, body kinds mixed per response
	for i := 0; i < o.Scale(600, 12000, 8000); i++ {
		k := FlowProcCase{}
		for p := 0; p < 2; p++ {
			k.Procs = append(k.Procs, ProcCfg{Attempts: r.Range(1, 4)})
		}
		n := r.Range(2, 24)
		mostlyBad := r.Chance(1, 2)
		for j := 0; j < n; j++ {
			p := 0
			if r.Chance(1, 5) {
				p = 1
			}
			kind := c.Pick(r, bodyKinds)
			if mostlyBad && r.Chance(3, 4) {
				kind = c.Pick(r, bad)
			}
			k.Events = append(k.Events, ProcEv{Proc: p, Seq: r.Range(1, 3), Body: kind})
		}
		runFlowProc(o, "flowbody", k)
	}
}
