package main

// "Patient" configurations: a retry budget of 255 and more attempts, no
// cool-down, and one logical call that keeps failing past attempts+1 responses.
// The small-scope and random generators stop at attempts = 4; nothing in the
// property text bounds attempts from above (init() accepts every attempts >= 1
// whose cumulative cool-down fits the timeout; cool-down 0 always does), so the
// bound "at most `attempts` retries, then failed and forgotten" must hold there
// too. An implementation whose per-call counter has a narrower representation
// than the configured budget (8 bits: 255 -> 0) never reaches `failed` for
// attempts >= 255: the flows monitor (flow-bound) yields the failing input.
//
// The cases are long but single-key (or two keys): the model evaluates them in
// linear time (the store holds one or two entries). Their number is capped.

import (
	c "verifharness/common"
)

// the boundaries of an 8-bit counter, one ordinary "patient" value, one far beyond
var patientAttempts = []int{255, 256, 300, 1000}

func genPatient(o *c.Out) {
	nAtt := o.Scale(4, 4, 4)
	// ---- flows mode, the processor: one sequence; attempts+1 failing responses
	// (attempts x retry, then failed), then the id is reused: 3 more responses
	for _, a := range patientAttempts[:nAtt] {
		k := FlowProcCase{Procs: []ProcCfg{{Attempts: a, Cooldown: 0, Multiplier: 0}}}
		for j := 0; j < a+4; j++ {
			k.Events = append(k.Events, ProcEv{Proc: 0, Seq: 1})
		}
		o.Count("flowproc:patient")
		runFlowProc(o, "flowproc", k)
	}
	// two processors with different budgets (one small, one patient) sharing the
	// flow context, two sequences interleaved on both
	for _, a := range []int{255, 300} {
		k := FlowProcCase{Procs: []ProcCfg{{Attempts: a}, {Attempts: 3}}}
		for j := 0; j < a+3; j++ {
			k.Events = append(k.Events, ProcEv{Proc: 0, Seq: 1}, ProcEv{Proc: 0, Seq: 2})
			if j < 6 {
				k.Events = append(k.Events, ProcEv{Proc: 1, Seq: 1})
			}
		}
		o.Count("flowproc:patient")
		runFlowProc(o, "flowproc", k)
	}
	// the same through the engine's own stream constructor, undecodable body
	{
		k := FlowProcCase{Procs: []ProcCfg{{Attempts: 256}}}
		for j := 0; j < 256+3; j++ {
			body := "gzip-corrupt"
			if j%2 == 1 {
				body = "plain"
			}
			k.Events = append(k.Events, ProcEv{Proc: 0, Seq: 1, Body: body})
		}
		o.Count("flowbody:patient")
		runFlowProc(o, "flowbody", k)
	}
	// ---- flows mode, the loaded engine: Filter(500-599) -> Retry(attempts)
	for _, a := range []int{255, 300} {
		k := EngineCase{Stages: []Stage{{500, 599, a}}}
		for j := 0; j < a+3; j++ {
			k.Events = append(k.Events, EngEv{Seq: 1, Status: 503})
		}
		// the call is over ("failed" at response attempts+1); a success in the
		// middle of the next one, then failures again
		k.Events = append(k.Events, EngEv{Seq: 1, Status: 200}, EngEv{Seq: 1, Status: 503})
		o.Count("flowengine:patient")
		runEngine(o, k)
	}
	// ---- policy mode: the remedy with the real cache, clock parked (cool-down 0,
	// ttl 31 s never lapses): an opening response, then attempts+3 more
	for _, a := range patientAttempts[:nAtt] {
		k := PolicyCase{Attempts: a, Cooldown: 0, Multiplier: 0, Ranges: [][2]int{{500, 599}}, T0: t0}
		k.Events = append(k.Events, PolEv{Kind: "resp", Seq: 1, New: true, Status: 500})
		for j := 0; j < a+3; j++ {
			k.Events = append(k.Events, PolEv{Kind: "resp", Seq: 1, New: false, Status: 500})
		}
		// reused id: a new call starts afresh
		k.Events = append(k.Events, PolEv{Kind: "resp", Seq: 1, New: true, Status: 500},
			PolEv{Kind: "resp", Seq: 1, New: false, Status: 500})
		o.Count("policy:patient")
		runPolicy(o, k)
	}
	// two interleaved sequences, the second opened half-way
	for _, a := range []int{255, 256} {
		k := PolicyCase{Attempts: a, Cooldown: 0, Multiplier: 1, Ranges: [][2]int{{500, 599}}, T0: t0}
		for j := 0; j < a+2; j++ {
			k.Events = append(k.Events, PolEv{Kind: "resp", Seq: 1, New: j == 0, Status: 503})
			if j >= a/2 {
				k.Events = append(k.Events, PolEv{Kind: "resp", Seq: 2, New: j == a/2, Status: 503})
			}
		}
		o.Count("policy:patient")
		runPolicy(o, k)
	}
	// ---- policy mode through the dispatcher: gateway-made responses only
	for _, a := range []int{255, 256} {
		k := DispatchCase{Attempts: a, Cooldown: 0, Multiplier: 0, Ranges: [][2]int{{429, 429}, {500, 599}},
			Remedy: "fixed", EarlyStatus: 503, Allowed: 1}
		for j := 0; j < a+3; j++ {
			k.Events = append(k.Events, txn(j, 1, j == 0, false, true, 500))
		}
		o.Count("dispatch:patient")
		runDispatch(o, k)
	}
}
