package main

// Engine-level drive of the flows-mode retry: a generated flow
//
//	response: globalStream(start) -> F0 --hit--> R0 -> end
//	                                  \--miss--> F1 --hit--> R1 -> end
//	                                              \--miss--> ... -> end
//
// (Fi = real Filter processor with status_code_range, Ri = real Retry
// processor) is loaded by streams.NewStream().Initialize() from a YAML file and
// responses are pushed through Stream.ExecuteFlow. The flow context is the one
// the real Flow object owns. What ran is read from the verifhook "proc" events.

import (
	"fmt"
	"os"
	"path/filepath"
	"strings"
	"sync"

	"lunar/engine/actions"
	lunar_messages "lunar/engine/messages"
	"lunar/engine/streams"
	stream_config "lunar/engine/streams/config"
	lunar_context "lunar/engine/streams/lunar-context"
	public_types "lunar/engine/streams/public-types"
	stream_types "lunar/engine/streams/types"
	"lunar/engine/utils/environment"
	"lunar/engine/verifhook"
)

type Stage struct {
	From     int `json:"from"`
	To       int `json:"to"`
	Attempts int `json:"attempts"`
}

const engineHost = "c17.example.com"

func repoEngineDir() string {
	r := os.Getenv("VERIF_REPO")
	if r == "" {
		r = "/repo"
	}
	return filepath.Join(r, "proxy", "src", "services", "lunar-engine")
}

func flowYAML(stages []Stage) string {
	var b strings.Builder
	b.WriteString("name: C17Flow\n\nfilter:\n  url: \"" + engineHost + "/*\"\n\nprocessors:\n")
	for i, s := range stages {
		fmt.Fprintf(&b, "  F%d:\n    processor: Filter\n    parameters:\n      - key: status_code_range\n        value: \"%d-%d\"\n", i, s.From, s.To)
		fmt.Fprintf(&b, "  R%d:\n    processor: Retry\n    parameters:\n      - key: attempts\n        value: %d\n", i, s.Attempts)
	}
	b.WriteString("\nflow:\n  request:\n")
	b.WriteString("    - from:\n        stream:\n          name: globalStream\n          at: start\n      to:\n        stream:\n          name: globalStream\n          at: end\n")
	b.WriteString("  response:\n")
	b.WriteString("    - from:\n        stream:\n          name: globalStream\n          at: start\n      to:\n        processor:\n          name: F0\n")
	for i := range stages {
		fmt.Fprintf(&b, "    - from:\n        processor:\n          name: F%d\n          condition: hit\n      to:\n        processor:\n          name: R%d\n", i, i)
		if i+1 < len(stages) {
			fmt.Fprintf(&b, "    - from:\n        processor:\n          name: F%d\n          condition: miss\n      to:\n        processor:\n          name: F%d\n", i, i+1)
		} else {
			fmt.Fprintf(&b, "    - from:\n        processor:\n          name: F%d\n          condition: miss\n      to:\n        stream:\n          name: globalStream\n          at: end\n", i)
		}
		for _, cond := range []string{"retry", "failed"} {
			fmt.Fprintf(&b, "    - from:\n        processor:\n          name: R%d\n          condition: %s\n      to:\n        stream:\n          name: globalStream\n          at: end\n", i, cond)
		}
	}
	return b.String()
}

type procEvent struct{ flow, key, dir, cond string }

type engine struct {
	s      *streams.Stream
	shared public_types.SharedStateI[[]byte]
	mu     sync.Mutex
	events []procEvent
}

var engineSeq int

// newEngine writes the flow into a fresh directory under the harness cwd and
// initialises a real stream engine on it. A non-nil error = refused at load.
func newEngine(stages []Stage) (*engine, error) {
	engineSeq++
	root, err := filepath.Abs(fmt.Sprintf("engine_%06d", engineSeq))
	if err != nil {
		return nil, err
	}
	for _, d := range []string{"flows", "quotas", "path_params"} {
		if err := os.MkdirAll(filepath.Join(root, d), 0o755); err != nil {
			return nil, err
		}
	}
	if err := os.WriteFile(filepath.Join(root, "flows", "c17.yaml"), []byte(flowYAML(stages)), 0o644); err != nil {
		return nil, err
	}
	environment.SetProcessorsDirectory(filepath.Join(repoEngineDir(), "streams", "processors", "registry"))
	environment.SetStreamsFlowsDirectory(filepath.Join(root, "flows"))
	environment.SetQuotasDirectory(filepath.Join(root, "quotas"))
	environment.SetPathParamsDirectory(filepath.Join(root, "path_params"))
	e := &engine{shared: lunar_context.NewMemoryState[[]byte]()}
	verifhook.SetEvent(func(kind string, args ...string) {
		if kind != "proc" || len(args) < 4 {
			return
		}
		e.mu.Lock()
		e.events = append(e.events, procEvent{args[0], args[1], args[2], args[3]})
		e.mu.Unlock()
	})
	s, err := streams.NewStream()
	if err != nil {
		return nil, err
	}
	if err := s.Initialize(); err != nil {
		os.RemoveAll(root)
		return nil, err
	}
	os.RemoveAll(root)
	e.s = s
	return e, nil
}

// respond pushes one response of sequence seq through the engine. Returns the
// observable: "retry" (a RetryRequestAction was produced), "failed" (a Retry
// processor ran and reported failed), "other" (anything else) and the key of
// the Retry processor that ran ("" if none), and the stages whose retry
// processor still has a counter for the sequence in the flow context the real
// Flow owns, read after the response was processed.
func (e *engine) respond(seq string, id string, status int, nStages int) (string, string, []int, error) {
	e.mu.Lock()
	e.events = nil
	e.mu.Unlock()
	api := stream_types.NewAPIStream("C17", public_types.StreamTypeResponse, e.shared)
	api.SetRequest(stream_types.NewRequest(lunar_messages.OnRequest{
		ID: id, SequenceID: seq, Method: "GET", Scheme: "https",
		URL: engineHost + "/v1/thing", Headers: map[string]string{},
	}))
	api.SetResponse(stream_types.NewResponse(lunar_messages.OnResponse{
		ID: id, SequenceID: seq, Method: "GET", URL: engineHost + "/v1/thing",
		Status: status, Headers: map[string]string{},
	}))
	acts := &stream_config.StreamActions{
		Request:  &stream_config.RequestStream{},
		Response: &stream_config.ResponseStream{},
	}
	if err := e.s.ExecuteFlow(api, acts); err != nil {
		return "", "", nil, err
	}
	kept := []int{}
	if lc := api.GetContext(); lc != nil && lc.GetFlowContext() != nil {
		for i := 0; i < nStages; i++ {
			if _, err := lc.GetFlowContext().Get(fmt.Sprintf("R%d::retry_counter::%s", i, seq)); err == nil {
				kept = append(kept, i)
			}
		}
	}
	retryAction := false
	for _, a := range acts.Response.Actions {
		if _, ok := a.(*actions.RetryRequestAction); ok {
			retryAction = true
		}
	}
	e.mu.Lock()
	defer e.mu.Unlock()
	ran, cond := "", ""
	for _, ev := range e.events {
		if strings.HasPrefix(ev.key, "R") && ev.flow == "C17Flow" {
			if ran != "" {
				return "", "", nil, fmt.Errorf("two retry processors ran for one response: %s and %s", ran, ev.key)
			}
			ran, cond = ev.key, ev.cond
		}
	}
	switch {
	case retryAction && cond == "retry":
		return "retry", ran, kept, nil
	case !retryAction && cond == "failed":
		return "failed", ran, kept, nil
	case !retryAction && ran == "":
		return "other", "", kept, nil
	}
	return fmt.Sprintf("inconsistent(action=%v,cond=%q)", retryAction, cond), ran, kept, nil
}
