package main

import (
	"strings"

	c "verifharness/common"
)

func shuffle(r *c.Rng, xs []string) {
	for i := len(xs) - 1; i > 0; i-- {
		j := r.Intn(i + 1)
		xs[i], xs[j] = xs[j], xs[i]
	}
}

func mkFlows(pats []string, cons []constraint) []Flow {
	out := []Flow{}
	for i, p := range pats {
		f := Flow{ID: i, URL: p}
		if cons != nil {
			f = withConstraint(f, cons[i])
		}
		out = append(out, f)
	}
	return out
}

func firstTok(p string) string {
	i := strings.IndexAny(p, "./")
	if i < 0 {
		return p
	}
	return p[:i]
}

// quickPattern: member of the quick tier's pattern sub-universe.
func quickPattern(p string) bool {
	parts := specSplit(p, false)
	if strings.Count(p, ".") >= 2 {
		return false
	}
	for i, x := range parts {
		if x.tok == "b" && i != len(parts)-1 {
			return false
		}
	}
	return true
}

func generate(r *runner) {
	o := r.o
	thorough := o.Thorough() || o.Search()
	pats := allPatterns(3)
	extra := o.Scale(1, 2, 2)

	// 1. single patterns x every URL of depth <= 4 (incl. trailing "/")
	every := allURLs(o.Scale(3, 4, 4))
	for _, p := range pats {
		urls := append(urlsFor([]string{p}, extra), every...)
		r.runSet(mkFlows([]string{p}, nil), txnsFor(urls, false), true, "single")
	}

	// 2. every pair of patterns, both load orders.  thorough: the whole universe
	//    (136 patterns).  quick: the sub-universe in which b occurs only as the
	//    last part, the first token is a or {p} (or the pattern is "*") and the
	//    host has at most two labels (51 patterns): the b-first cases are
	//    symmetric to the a-first ones.
	for i, p := range pats {
		for j := i; j < len(pats); j++ {
			q := pats[j]
			if !thorough && !(quickPattern(p) && quickPattern(q)) {
				continue
			}
			urls := urlsFor([]string{p, q}, extra)
			// thorough: the monitor sees every pair; the model a tenth of the non-quick ones
			rec := !thorough || (quickPattern(p) && quickPattern(q)) || (i+j)%10 == 0
			r.runSetRec(mkFlows([]string{p, q}, nil), txnsFor(urls, false), true, "pair", rec)
		}
	}

	// 3. several flows on ONE url (and on a url + its /* sibling): every pair of
	//    constraint variants, every order, every transaction variant
	for _, pp := range [][]string{{"a/b", "a/b"}, {"a/*", "a/*"}, {"a/{p}", "a/{p}"}, {"a/b", "a/b/*"}, {"*", "*"}, {"a", "a/*"}} {
		for ci, c1 := range constraintVariants {
			for cj, c2 := range constraintVariants {
				if cj < ci && pp[0] == pp[1] {
					continue
				}
				flows := mkFlows(pp, []constraint{c1, c2})
				r.runSet(flows, txnsFor([]string{"a/b", "a/b/c", "a"}[:o.Scale(2, 3, 3)], true), true, "constraints")
				for kind := 1; kind <= 2; kind++ { // the second one as a system flow
					fs := mkFlows(pp, []constraint{c1, c2})
					fs[1].Kind = kind
					if ci+cj < 6 || thorough {
						r.runSet(fs, txnsFor([]string{"a/b", "a/b/c"}, true), true, "constraints-system")
					}
				}
			}
		}
	}

	// 4. triples: thorough = every triple of patterns with <= 2 host labels whose
	//    first token is not b; quick = a random sample + the targeted ones
	targeted := [][]string{
		{"a/*", "a/{p}", "a/*"}, {"a/*", "a/{p}/b", "a/*"}, {"a/b/a", "a/b/*", "a/b"},
		{"a/{p}", "a/b", "a/{p}/a"}, {"a.b/a", "a/b", "a/b/a"}, {"a/b", "a/b/*", "a/*"},
		{"*", "a/*", "a"}, {"{p}/a", "a/{p}", "a/a"},
	}
	for _, t := range targeted {
		r.runSet(mkFlows(t, nil), txnsFor(urlsFor(t, extra), false), true, "triple-targeted")
	}
	small := []string{}
	for _, p := range pats {
		if firstTok(p) != "b" && strings.Count(p, ".") < 2 {
			small = append(small, p)
		}
	}
	if o.Thorough() {
		// every triple (with repetition) x all 6 load orders goes through the
		// implementation + monitor; every 80th one also through the model
		n := 0
		for i := range small {
			for j := i; j < len(small); j++ {
				for l := j; l < len(small); l++ {
					t := []string{small[i], small[j], small[l]}
					n++
					r.runSetRec(mkFlows(t, nil), txnsFor(urlsFor(t, 1), false), true, "triple", n%80 == 0)
				}
			}
		}
	}
	n := o.Scale(150, 800, 6000)
	for i := 0; i < n; i++ {
		cnt := o.Rng.Range(3, 4)
		t := []string{}
		cs := []constraint{}
		for len(t) < cnt {
			t = append(t, small[o.Rng.Intn(len(small))])
			if o.Rng.Chance(1, 3) {
				cs = append(cs, constraintVariants[o.Rng.Intn(len(constraintVariants))])
			} else {
				cs = append(cs, constraintVariants[0])
			}
		}
		fs := mkFlows(t, cs)
		for i := range fs {
			if o.Rng.Chance(1, 8) {
				fs[i].Kind = o.Rng.Range(1, 2)
			}
		}
		urls := urlsFor(t, 1)
		if len(urls) > 24 {
			shuffle(o.Rng, urls)
			urls = urls[:24]
		}
		r.runSet(fs, txnsFor(urls, cnt == 3 && i%4 == 0), cnt == 3, "random")
	}

	// 4b. many flows on ONE node (1..9 unconstrained user flows on a/* or a/{p} or a)
	//     plus flows on deeper / sibling nodes that match the same URLs: the
	//     selections of different transactions are assembled from the same
	//     per-node lists and must stay independent of each other
	for _, base := range []string{"a/*", "a/{p}", "*"} {
		for cnt := 1; cnt <= o.Scale(9, 9, 9); cnt++ {
			t := []string{}
			for i := 0; i < cnt; i++ {
				t = append(t, base)
			}
			t = append(t, "a/a", "a/b", "a/b/*")
			fs := mkFlows(t, nil)
			if cnt%2 == 0 {
				fs[0] = withConstraint(fs[0], constraintVariants[1%len(constraintVariants)])
			}
			r.runSet(fs, txnsFor([]string{"a/a", "a/b", "a/b/a", "a/c", "a/a"}, false), false, "many-on-one-node")
		}
	}

	// 4c. status_code lists in the order written (not ascending, duplicates) x every
	//     listed and unlisted status; 4d. upper-case letters in host labels and
	//     literal segments, both spellings of every URL, two flows differing only
	//     in letter case.  Each set is built as Go literals AND written as flow
	//     files read back by the production loader (streamconfig.GetFlows).
	for _, viaLoader := range []bool{false, true} {
		r.loader = viaLoader
		label := map[bool]string{false: "-literal", true: "-loader"}[viaLoader]
		for _, fs := range statusListSets(len(statusLists)) {
			r.runSet(fs, statusTxns([]string{"a/b", "a/b/c"}, true), true, "status-lists"+label)
		}
		for _, pats := range letterCaseSets(len(letterCaseBase)) {
			r.runSet(mkFlows(pats, nil), txnsFor(letterCaseURLs(pats), false), true, "letter-case"+label)
		}
		// a sample of the ordinary constraint pairs through the loader as well
		if viaLoader {
			for ci := range constraintVariants {
				flows := mkFlows([]string{"a/b", "a/*"}, []constraint{constraintVariants[ci], constraintVariants[(ci+3)%len(constraintVariants)]})
				r.runSet(flows, txnsFor([]string{"a/b"}, true), true, "constraints-loader")
			}
		}
	}
	r.loader = false

	// 4e. query strings AS WRITTEN: a malformed sibling pair next to the required
	//     parameter, empty pieces, valueless / repeated keys, escapes (suite rawq)
	r.rawq = true
	for _, fs := range rawQuerySets() {
		r.runSet(fs, rawQueryTxns([]string{"a/b", "a/c"}, len(rawQueries)), true, "raw-query")
	}
	r.rawq = false

	// 4f. required header values x letter-case spellings of the value sent
	for _, fs := range headerCaseSets() {
		r.runSet(fs, headerCaseTxns([]string{"a/b", "a/c/d"}), true, "header-value-case")
	}

	// 5. malformed / odd declarations: errors and odd shapes must be modelled too
	odd := [][]string{
		{"a/*/b"}, {"a//b"}, {"*/*"}, {"a/*/*"}, {"*.*"}, {"a/{p}", "a/{q}"}, {"a/{p}/b", "a/{q}"},
		{"a/b/", "a/b"}, {"/a/b", "a/b"}, {"a/b", "a/b/"}, {"a/{p}", "a/{p}/"}, {"a.*", "a/*"}, {"a.{p}", "a/{p}"},
		{"a/*/*", "a/*"}, {"a/{}", "a/b"}, {"a/{p", "a/b"},
	}
	for _, t := range odd {
		urls := append(urlsFor(t, 1), "a//b", "a/", "a.", ".a/b", "a/*", "a/{p}", "a/b/*")
		r.runSet(mkFlows(t, nil), txnsFor(urls, false), true, "odd")
	}
}
