package main

import (
	"os"
	"path/filepath"
	"reflect"
	"strings"

	lunar_messages "lunar/engine/messages"
	stream_config "lunar/engine/streams/config"
	streamfilter "lunar/engine/streams/filter"
	stream_flow "lunar/engine/streams/flow"
	internaltypes "lunar/engine/streams/internal-types"
	lunar_context "lunar/engine/streams/lunar-context"
	public_types "lunar/engine/streams/public-types"
	stream_types "lunar/engine/streams/types"
)

var sharedState = lunar_context.NewMemoryState[[]byte]()

func kvs(in []KV) []public_types.KeyValue {
	out := []public_types.KeyValue{}
	for _, kv := range in {
		out = append(out, *public_types.NewKeyValue(kv.K, kv.V))
	}
	return out
}

func mkFilter(f Flow) *stream_config.Filter {
	return &stream_config.Filter{
		Name:        flowName(f.ID),
		URL:         f.URL,
		QueryParams: kvs(f.Query),
		Method:      append([]string{}, f.Methods...),
		Headers:     kvs(f.Headers),
		StatusCode:  append([]int{}, f.Status...),
	}
}

func flowType(kind int) internaltypes.FlowType {
	switch kind {
	case 1:
		return internaltypes.SystemFlowStart
	case 2:
		return internaltypes.SystemFlowEnd
	}
	return internaltypes.UserFlow
}

func queryString(q []KV) string {
	parts := []string{}
	for _, kv := range q {
		parts = append(parts, kv.K+"="+kv.V)
	}
	return strings.Join(parts, "&")
}

func mkStream(t Txn) public_types.APIStreamI {
	hdr := map[string]string{}
	for _, kv := range t.Headers {
		hdr[kv.K] = kv.V
	}
	if t.Resp && t.NoResp {
		// what Stream.executeReq does after an early response: the request stream,
		// handled as a response; URL, method, headers come from the request,
		// GetResponse() is nil
		st := stream_types.NewRequestAPIStream(lunar_messages.OnRequest{
			ID: "r1", SequenceID: "r1", Method: t.Method, Scheme: "https", URL: t.URL,
			Query: rawQueryOf(t), Headers: hdr,
		}, sharedState)
		st.SetType(public_types.StreamTypeResponse)
		return st
	}
	if t.Resp {
		return stream_types.NewResponseAPIStream(lunar_messages.OnResponse{
			ID: "r1", SequenceID: "r1", Method: t.Method, URL: t.URL, Status: t.Status, Headers: hdr,
		}, sharedState)
	}
	return stream_types.NewRequestAPIStream(lunar_messages.OnRequest{
		ID: "r1", SequenceID: "r1", Method: t.Method, Scheme: "https", URL: t.URL,
		Query: rawQueryOf(t), Headers: hdr,
	}, sharedState)
}

// execTree loads the flows into a fresh FilterTree by calling AddFlow in the
// given order (this is what flow_builder does, in Go-map order) and runs every
// transaction through FilterTree.GetFlow.
func execTree(k *Case, txns []Txn) {
	tree := streamfilter.NewFilterTree()
	ids := map[internaltypes.FlowI]int{}
	k.AddErr = nil
	var decoded map[string]internaltypes.FlowRepI
	if k.Loader {
		decoded = loadFlowFiles(k.Flows)
	}
	for _, f := range k.Flows {
		var rep internaltypes.FlowRepI = &stream_config.FlowRepresentation{
			Name: flowName(f.ID), Filter: mkFilter(f), Type: flowType(f.Kind),
		}
		if k.Loader {
			got, ok := decoded[flowName(f.ID)]
			if !ok || got == nil {
				// the loader did not deliver this flow: reported as "not loaded"
				k.AddErr = append(k.AddErr, true)
				continue
			}
			rep = got
		}
		fl := stream_flow.NewFlow(nil, rep, nil)
		ids[fl] = f.ID
		k.AddErr = append(k.AddErr, safeAdd(tree, fl))
	}
	k.Obs = nil
	k.Mutated = nil
	// every result is HELD until all transactions of the batch were looked up and
	// is then read a second time: the flows selected for one transaction must not
	// change because another transaction was looked up afterwards (a result that
	// shares storage with the tree or with other results would)
	held := [][][]internaltypes.FlowI{}
	names := func(ls [][]internaltypes.FlowI) []int {
		sel := []int{}
		for _, l := range ls {
			for _, fl := range l {
				sel = append(sel, ids[fl])
			}
		}
		return sortedInts(sel)
	}
	for _, t := range txns {
		ls := [][]internaltypes.FlowI{}
		if res, found := tree.GetFlow(mkStream(t)); found {
			u, _ := res.GetUserFlow()
			s, _ := res.GetSystemFlowStart()
			e, _ := res.GetSystemFlowEnd()
			ls = [][]internaltypes.FlowI{u, s, e}
		}
		held = append(held, ls)
		k.Obs = append(k.Obs, Obs{Txn: t, Selected: names(ls)})
	}
	for i := range held {
		if after := names(held[i]); !reflect.DeepEqual(after, k.Obs[i].Selected) {
			k.Mutated = append(k.Mutated, Mutated{Index: i, After: after})
		}
	}
}

// safeAdd reports an error return (or a panic) of AddFlow as "load error".
func safeAdd(tree internaltypes.FilterTreeI, fl internaltypes.FlowI) (failed bool) {
	defer func() {
		if r := recover(); r != nil {
			failed = true
		}
	}()
	return tree.AddFlow(fl) != nil
}

// loadFlowFiles writes the flows as flow files (the YAML of the engine-level
// sample) into a scratch directory under the harness cwd and reads them back
// with the production loader streamconfig.GetFlows.  Whatever the loader does
// not deliver (error, panic) is simply missing from the result.
func loadFlowFiles(flows []Flow) (out map[string]internaltypes.FlowRepI) {
	out = map[string]internaltypes.FlowRepI{}
	defer func() {
		if r := recover(); r != nil {
			out = map[string]internaltypes.FlowRepI{}
		}
	}()
	setupEnv()
	cwd, err := os.Getwd()
	if err != nil {
		return out
	}
	dir := filepath.Join(cwd, "cfgl")
	os.RemoveAll(dir)
	if err := os.MkdirAll(dir, 0o755); err != nil {
		return out
	}
	for _, f := range flows {
		if err := os.WriteFile(filepath.Join(dir, flowName(f.ID)+".yaml"), []byte(flowYAML(f)), 0o644); err != nil {
			return out
		}
	}
	got, _ := stream_config.GetFlows(dir) // partial results are kept: a refused file = a flow not loaded
	if got != nil {
		out = got
	}
	return out
}
