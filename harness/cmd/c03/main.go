// C03 harness: drives the real streamfilter.FilterTree (AddFlow in every load
// order, GetFlow + per-flow qualification) and, for a sample, the whole engine
// (streams.NewStream().Initialize() + ExecuteFlow + GetFlowInvocations).
// Observable = the set of flows selected for each transaction.
// Monitor = independent spec matcher (spec.go) + comparison across load orders.
package main

import (
	"fmt"
	"os"
	"reflect"

	"github.com/rs/zerolog"

	c "verifharness/common"
)

const suite = "filter"

// suiteLoaded: the cases whose flows went through the production YAML loader
// (tree level: streamconfig.GetFlows; engine level: Stream.Initialize); the
// model evaluates them through its explicit loader stage (run_case_loaded).
const suiteLoaded = "loaded"

// suiteRawQ: requests whose query string is given AS WRITTEN (malformed pairs,
// escapes, empty pieces): the model decodes the raw string itself
// (Model.decode_query), the decoded pairs are compared with the harness's own
// decoder and the selection is evaluated on the model-decoded parameters.
const suiteRawQ = "rawq"

type runner struct {
	o        *c.Out
	maxCases int
	loader   bool // tree-level cases: write flow files, read them back with GetFlows
	rawq     bool // the requests carry raw query strings: suite "rawq" (run_case_rawq)
}

func (r *runner) suiteName() string {
	if r.rawq {
		return suiteRawQ
	}
	if r.loader {
		return suiteLoaded
	}
	return suite
}

// runSet loads the flow set in every order (or only the given one when
// allOrders is false), runs the transactions, monitors and records the cases.
func (r *runner) runSet(flows []Flow, txns []Txn, allOrders bool, label string) {
	r.runSetRec(flows, txns, allOrders, label, true)
}

// runSetRec: record=false runs implementation + monitor only (the case is not
// handed to the Coq model): used by the thorough tier to sweep spaces that are
// too large to be evaluated case by case inside coqc.
func (r *runner) runSetRec(flows []Flow, txns []Txn, allOrders bool, label string, record bool) {
	o := r.o
	orders := [][]int{}
	if allOrders {
		orders = permutations(len(flows))
	} else {
		id := make([]int, len(flows))
		for i := range id {
			id[i] = i
		}
		orders = append(orders, id)
	}
	var first *Case
	for _, ord := range orders {
		k := Case{Loader: r.loader, RawQ: r.rawq}
		for _, i := range ord {
			k.Flows = append(k.Flows, flows[i])
		}
		execTree(&k, txns)
		nontrivial := false
		for i := range k.Obs {
			if len(k.Obs[i].Selected) > 0 {
				nontrivial = true
			}
		}
		idx := -1
		if record {
			term := ""
			if k.RawQ {
				term = coqCaseRaw(&k)
			} else {
				term = coqCase(&k)
			}
			idx = o.Case(r.suiteName(), term, k, nontrivial)
			o.Count("flows=" + fmt.Sprint(len(flows)))
			o.Count("gen=" + label)
			o.CountN("transactions", len(k.Obs))
		} else {
			o.Count("monitor-only:" + label)
			o.CountN("monitor-only-transactions", len(k.Obs))
		}
		anyErr := false
		for _, e := range k.AddErr {
			anyErr = anyErr || e
		}
		if anyErr {
			o.Count("load-error")
		}
		for i := range k.Obs {
			o.MonitorChecked(1)
			for _, f := range checkSelection(k.Flows, k.AddErr, &k.Obs[i]) {
				mini := Case{Flows: k.Flows, AddErr: k.AddErr, Obs: []Obs{k.Obs[i]}, Loader: k.Loader, RawQ: k.RawQ}
				o.Hit(c.Hit{Suite: r.suiteName(), Index: idx, Signature: f.sig, Demanded: f.demanded, Observed: f.observed, Case: mini})
			}
		}
		// stability: a selection handed to one transaction is not changed by later lookups
		o.MonitorChecked(1)
		for _, m := range k.Mutated {
			mini := Case{Flows: k.Flows, AddErr: k.AddErr, Obs: k.Obs[m.Index:], Loader: k.Loader, RawQ: k.RawQ}
			o.Hit(c.Hit{Suite: r.suiteName(), Index: idx, Signature: "selection-mutated:GetFlow",
				Demanded: fmt.Sprintf("the flows selected for %s %s (%v) are the ones run for it, whatever other transactions are looked up before it runs",
					k.Obs[m.Index].Txn.Method, k.Obs[m.Index].Txn.URL, k.Obs[m.Index].Selected),
				Observed: fmt.Sprintf("after the later transactions of the batch were looked up the same result object lists %v", m.After),
				Case:     mini})
		}
		// load-order independence: same flow set, same transaction => same selection
		if first == nil {
			kk := k
			first = &kk
		} else if !anyErr && allWellFormed(k.Flows) {
			for i := range k.Obs {
				o.MonitorChecked(1)
				if !reflect.DeepEqual(k.Obs[i].Selected, first.Obs[i].Selected) {
					sig := "order-dependent:AddFlow"
					if !kcURL(k.Flows, k.Obs[i].Txn.URL) {
						sig = "host-path-collision:insert" // F-C03c, judged on this URL only
					}
					mini := Case{Flows: k.Flows, AddErr: k.AddErr, Obs: []Obs{k.Obs[i]}, Loader: k.Loader, RawQ: k.RawQ}
					o.Hit(c.Hit{Suite: r.suiteName(), Index: idx, Signature: sig,
						Demanded: fmt.Sprintf("selection independent of load order; loaded as %v the selection for %s %s was %v",
							urlsOf(first.Flows), first.Obs[i].Txn.Method, first.Obs[i].Txn.URL, first.Obs[i].Selected),
						Observed: fmt.Sprintf("loaded as %v the selection is %v", urlsOf(k.Flows), k.Obs[i].Selected),
						Case:     mini})
				}
			}
		}
	}
}

func allWellFormed(fs []Flow) bool {
	for _, f := range fs {
		if !patternOK(specSplit(f.URL, false)) {
			return false
		}
	}
	return true
}

func urlsOf(fs []Flow) []string {
	out := []string{}
	for _, f := range fs {
		out = append(out, flowName(f.ID)+":"+f.URL)
	}
	return out
}

func txnsFor(urls []string, full bool) []Txn {
	out := []Txn{}
	for i, u := range urls {
		out = append(out, txnVariants(u, full, i%4 == 0)...)
	}
	return out
}

func main() {
	zerolog.SetGlobalLevel(zerolog.Disabled)
	o := c.NewOut("C03")
	o.ShardSize = 60
	o.DeclareSuite(suite, "From Coq Require Import String.\nFrom Verif Require Import C03.Model.\nOpen Scope string_scope.", "case", "run_case")
	o.DeclareSuite(suiteLoaded, "From Coq Require Import String.\nFrom Verif Require Import C03.Model.\nOpen Scope string_scope.", "case", "run_case_loaded")
	o.Rule("exhaustive small scope: every set of <= 2 (thorough: 3) well-formed patterns over {a,b,{p}} + trailing * " +
		"with 1-3 parts (host labels / path segments), loaded into a fresh FilterTree in EVERY order, x URL shapes derived " +
		"from the patterns (instances, 1-2 extra trailing segments, missing last part, trailing '/', host only, host/path " +
		"switched, unknown token); same-URL flow pairs x all constraint variants (method/header/query/status) x all " +
		"request/response variants (incl. the request stream handled as a response without a response object); random " +
		"larger sets; status_code lists in the order written (every order of three codes, descending pairs, duplicates, five " +
		"unordered codes) x every listed and unlisted status; filter and transaction URLs with upper-case letters in host labels " +
		"and literal segments (both spellings of every URL, flows differing only in letter case) - both as Go literals and " +
		"written as flow files read back by the production loader streamconfig.GetFlows (suite 'loaded', model stage load_flows); " +
		"requests whose query string is given AS WRITTEN: a malformed sibling pair (bad percent escape, lone %, raw ';') before / after / " +
		"between the required parameters, empty pieces, valueless and repeated keys, escaped spellings (suite 'rawq': the model decodes the raw string, " +
		"Model.decode_query, and is compared with the harness's own decoder and with the selection); required header values x letter-case variants of the value sent; " +
		"engine-level sample incl. these families (also through exec_flow: anything happened <-> something selected). A case = one flow set in one load order with " +
		"its batch of transactions; distinct = distinct (ordered flow set, transactions, selections); non-trivial = at least " +
		"one transaction selects a flow")
	o.DeclareSuite(suiteRawQ, "From Coq Require Import String.\nFrom Verif Require Import C03.Model.\nOpen Scope string_scope.", "case_rawq", "run_case_rawq")
	r := &runner{o: o}
	var k Case
	if _, ok := o.ReplayCase(&k); ok {
		replay(r, k)
		o.Finish()
		return
	}
	generate(r)
	if os.Getenv("C03_NO_ENGINE") == "" {
		engineSample(r)
	}
	o.Finish()
}

// replay re-executes the flow set of a replay file in its recorded order.
func replay(r *runner, k Case) {
	txns := []Txn{}
	for _, ob := range k.Obs {
		txns = append(txns, ob.Txn)
	}
	if k.Engine {
		runEngineCase(r, k.Flows, txns)
		return
	}
	r.loader = k.Loader
	r.rawq = k.RawQ
	// the recorded order first, then every other order (for the order-independence check)
	r.runSet(k.Flows, txns, false, "replay")
	r.runSet(k.Flows, txns, true, "replay-orders")
}
