package main

import (
	"sort"
	"strings"
)

// ---------------------------------------------------------------- patterns

var kindShapes = [][]bool{ // true = host label
	{true},
	{true, false}, {true, true},
	{true, false, false}, {true, true, false}, {true, true, true},
}

func render(parts []spart) string {
	var sb strings.Builder
	for i, p := range parts {
		if i > 0 {
			if p.host {
				sb.WriteByte('.')
			} else {
				sb.WriteByte('/')
			}
		}
		sb.WriteString(p.tok)
	}
	return sb.String()
}

// allPatterns: every well-formed pattern of at most maxDepth parts over
// {a,b,{p}} with an optional trailing *.
func allPatterns(maxDepth int) []string {
	inner := []string{"a", "b", "{p}"}
	last := []string{"a", "b", "{p}", "*"}
	var out []string
	for _, shape := range kindShapes {
		n := len(shape)
		if n > maxDepth {
			continue
		}
		idx := make([]int, n)
		for {
			parts := make([]spart, n)
			for i := range parts {
				if i == n-1 {
					parts[i] = spart{shape[i], last[idx[i]]}
				} else {
					parts[i] = spart{shape[i], inner[idx[i]]}
				}
			}
			out = append(out, render(parts))
			i := n - 1
			for i >= 0 {
				lim := len(inner)
				if i == n-1 {
					lim = len(last)
				}
				idx[i]++
				if idx[i] < lim {
					break
				}
				idx[i] = 0
				i--
			}
			if i < 0 {
				break
			}
		}
	}
	return out
}

// ---------------------------------------------------------------- constraints

type constraint struct {
	name    string
	methods []string
	headers []KV
	query   []KV
	status  []int
}

var constraintVariants = []constraint{
	{name: "none"},
	{name: "method", methods: []string{"POST"}},
	{name: "header", headers: []KV{{"x-b", "1"}}},
	{name: "query", query: []KV{{"q", "1"}}},
	{name: "status", status: []int{201}},
	{name: "method+header", methods: []string{"POST"}, headers: []KV{{"x-b", "1"}}},
	{name: "all", methods: []string{"GET", "POST"}, headers: []KV{{"X-B", "1"}, {"x-c", "v"}}, query: []KV{{"q", "1"}}, status: []int{200, 201}},
	{name: "header-alt", headers: []KV{{"x-b", "1"}, {"x-b", "2"}}},
}

func withConstraint(f Flow, c constraint) Flow {
	f.Methods, f.Headers, f.Query, f.Status = c.methods, c.headers, c.query, c.status
	return f
}

// ---------------------------------------------------------------- URLs and transactions

// urlsFor: URL shapes aimed at the given patterns: exact instances, one/two
// extra trailing segments, a missing last part, trailing "/", host only,
// host-label/path-segment switched at the boundary, an unknown token.
func urlsFor(patterns []string, extra int) []string {
	set := map[string]bool{}
	add := func(parts []spart) {
		if len(parts) == 0 || !parts[0].host {
			return
		}
		set[render(parts)] = true
	}
	for _, pat := range patterns {
		p := specSplit(pat, false)
		for _, pv := range []string{"a", "c"} { // value a parameter takes
			inst := []spart{}
			for _, x := range p {
				switch {
				case x.tok == "*":
				case isParam(x.tok):
					inst = append(inst, spart{x.host, pv})
				default:
					inst = append(inst, x)
				}
			}
			add(inst)
			for ti, t := range []string{"a", "c", "b"} {
				if extra < 2 && ti == 2 {
					break // quick tier: two of the three tokens
				}
				e1 := append(append([]spart{}, inst...), spart{false, t})
				add(e1)
				if extra >= 2 {
					add(append(append([]spart{}, e1...), spart{false, "b"}))
					add(append(append([]spart{}, e1...), spart{false, "c"}))
				}
				// an extra host label instead of a path segment
				h := 0
				for h < len(inst) && inst[h].host {
					h++
				}
				withLabel := append(append(append([]spart{}, inst[:h]...), spart{true, t}), inst[h:]...)
				add(withLabel)
			}
			if len(inst) > 1 {
				add(inst[:len(inst)-1])
			}
			// switch the kind at the host/path boundary (a.b/x <-> a/b/x)
			h := 0
			for h < len(inst) && inst[h].host {
				h++
			}
			if h >= 2 {
				sw := append([]spart{}, inst...)
				sw[h-1].host = false
				add(sw)
			}
			if h < len(inst) {
				sw := append([]spart{}, inst...)
				sw[h].host = true
				add(sw)
			}
			// replace the last part by an unknown token
			if len(inst) > 0 {
				un := append([]spart{}, inst...)
				un[len(un)-1].tok = "c"
				add(un)
			}
		}
	}
	out := []string{}
	for u := range set {
		out = append(out, u)
	}
	sort.Strings(out)
	// trailing "/" on a few of them
	n := len(out)
	for i := 0; i < n; i += 3 {
		out = append(out, out[i]+"/")
	}
	return out
}

// allURLs: every URL of at most maxDepth parts over {a,b,c} (1-2 host labels).
func allURLs(maxDepth int) []string {
	toks := []string{"a", "b", "c"}
	out := []string{}
	var rec func(parts []spart)
	rec = func(parts []spart) {
		if len(parts) > 0 {
			out = append(out, render(parts))
		}
		if len(parts) == maxDepth {
			return
		}
		for _, t := range toks {
			hosts := 0
			for _, p := range parts {
				if p.host {
					hosts++
				}
			}
			if hosts == len(parts) && hosts < 2 { // still inside the host
				rec(append(append([]spart{}, parts...), spart{true, t}))
			}
			if len(parts) > 0 {
				rec(append(append([]spart{}, parts...), spart{false, t}))
			}
		}
	}
	rec(nil)
	return out
}

// txnVariants: the transactions tried on one URL.  full = the combinations
// relevant to the constraint variants; otherwise a bare GET request (and, when
// withResp, the response of the same call).
func txnVariants(url string, full, withResp bool) []Txn {
	if !full {
		out := []Txn{{URL: url, Method: "GET"}}
		if withResp {
			out = append(out, Txn{Resp: true, URL: url, Method: "GET", Status: 200})
			out = append(out, Txn{Resp: true, NoResp: true, URL: url, Method: "GET"})
		}
		return out
	}
	out := []Txn{}
	for _, m := range []string{"GET", "POST", "HEAD"} {
		for _, h := range [][]KV{nil, {{"x-b", "1"}}} {
			for _, q := range [][]KV{nil, {{"q", "1"}}} {
				out = append(out, Txn{URL: url, Method: m, Headers: h, Query: q})
			}
		}
	}
	out = append(out,
		Txn{URL: url, Method: "POST", Headers: []KV{{"x-b", "2"}, {"x-c", "V"}}, Query: []KV{{"q", "1"}}},
		Txn{URL: url, Method: "GET", Headers: []KV{{"x-b", "1"}, {"x-c", "v"}}, Query: []KV{{"q", "2"}, {"q", "1"}}},
		Txn{URL: url, Method: "POST", Headers: []KV{{"x-b", "1"}, {"x-c", "V"}}, Query: []KV{{"q", "1"}, {"q", "2"}}},
		Txn{Resp: true, URL: url, Method: "GET", Status: 200},
		Txn{Resp: true, URL: url, Method: "POST", Status: 201},
		Txn{Resp: true, URL: url, Method: "GET", Status: 500},
		Txn{Resp: true, URL: url, Method: "HEAD", Status: 201},
		// the request handled as a response after an early response: no response object
		Txn{Resp: true, NoResp: true, URL: url, Method: "GET"},
		Txn{Resp: true, NoResp: true, URL: url, Method: "POST", Headers: []KV{{"x-b", "1"}}, Query: []KV{{"q", "1"}}},
	)
	return out
}

// ---------------------------------------------------------------- orders

func permutations(n int) [][]int {
	if n == 0 {
		return [][]int{{}}
	}
	var out [][]int
	for _, p := range permutations(n - 1) {
		for i := 0; i <= len(p); i++ {
			q := append(append(append([]int{}, p[:i]...), n-1), p[i:]...)
			out = append(out, q)
		}
	}
	return out
}

// ---------------------------------------------------------------- status_code lists

// statusLists: several codes in the order WRITTEN: every order of 404/429/500,
// descending pairs, duplicates, a longer unordered list, one code, ascending.
var statusLists = [][]int{
	{500, 429, 404}, {404, 200}, {429, 404, 429}, {404, 500, 429}, {503, 500, 429, 404, 502},
	{429, 404, 500}, {429, 500, 404}, {500, 404, 429}, {404, 429, 500}, {200, 404}, {500, 429},
	{201, 201}, {500, 500, 200}, {200},
}

// statusProbe: every code some list contains and codes no list contains
// (below, between and above the listed ones).
var statusProbe = []int{100, 200, 201, 404, 429, 499, 500, 502, 503, 599}

// statusListSets: the first n lists, each as (flow with the list, unrestricted
// flow on the same URL) and as (list on a/*, another list on a/b).
func statusListSets(n int) [][]Flow {
	out := [][]Flow{}
	for i, l := range statusLists {
		if i >= n {
			break
		}
		other := statusLists[(i+3)%len(statusLists)]
		out = append(out,
			mkFlows([]string{"a/b", "a/b"}, []constraint{{name: "status-list", status: l}, {name: "none"}}),
			mkFlows([]string{"a/*", "a/b"}, []constraint{{name: "status-list", status: l}, {name: "status-list", status: other}}),
		)
	}
	return out
}

// statusTxns: per URL the request, its response with every probe status and
// (tree level only) the request handled as a response without response object.
func statusTxns(urls []string, noResp bool) []Txn {
	out := []Txn{}
	for _, u := range urls {
		out = append(out, Txn{URL: u, Method: "GET"})
		for _, st := range statusProbe {
			out = append(out, Txn{Resp: true, URL: u, Method: "GET", Status: st})
		}
		if noResp {
			out = append(out, Txn{Resp: true, NoResp: true, URL: u, Method: "GET"})
		}
	}
	return out
}

// ---------------------------------------------------------------- letter case

// letterCaseBase: pattern sets with upper-case letters in host labels and in
// literal path segments; two flows that differ only in letter case.
var letterCaseBase = [][]string{
	{"a/B/{p}", "a/b/{p}"},
	{"A.b/c", "a.b/c"},
	{"a/B"},
	{"Api.X.com/v2/Users/{userId}", "api.x.com/v2/users/{userId}"},
	{"a/Bc/*", "a/bc/*"},
	{"a.B/x", "a.b/x", "a.{p}/x"},
	{"A/b"},
	{"a/B", "a/b", "a/{p}"},
	{"a/sObjects/Account/*"},
	{"A.B/C/D"},
	{"a/{p}/B", "a/{p}/b"},
	{"a/B/*", "a/b"},
}

func letterCaseSets(n int) [][]string {
	if n > len(letterCaseBase) {
		n = len(letterCaseBase)
	}
	return letterCaseBase[:n]
}

// letterCaseURLs: the URL shapes aimed at the patterns, each in the spelling of
// the pattern, all lower case, all upper case and with the case of the LAST
// letter switched (one segment differs).
func letterCaseURLs(pats []string) []string {
	set := map[string]bool{}
	for _, u := range urlsFor(pats, 1) {
		set[u] = true
		set[strings.ToLower(u)] = true
		set[strings.ToUpper(u)] = true
		for i := len(u) - 1; i >= 0; i-- {
			ch := u[i]
			if ch >= 'a' && ch <= 'z' {
				set[u[:i]+string(ch-32)+u[i+1:]] = true
				break
			}
			if ch >= 'A' && ch <= 'Z' {
				set[u[:i]+string(ch+32)+u[i+1:]] = true
				break
			}
		}
	}
	out := []string{}
	for u := range set {
		out = append(out, u)
	}
	sort.Strings(out)
	return out
}

// ---------------------------------------------------------------- query strings as written

// rawQueries: query strings as a client writes them.  The required parameters of
// rawQuerySets are page=1, sort=asc, cursor=x, q=1.  Malformed sibling pairs (bad
// percent escape, lone "%", raw ";") before / after / between the required ones,
// empty pieces, valueless keys, repeated keys, escaped spellings, "=" in a value.
var rawQueries = []string{
	"", "page=1", "page=1&sort=asc", "sort=asc&page=1", "page=2", "page=2&sort=asc", "q=1",
	// one malformed sibling next to the required parameter(s)
	"page=1&cursor=%zz", "page=1&sig=a;b", "cursor=100%&page=1", "page=1&%", "%&page=1",
	"page=1&x=%1", "page=1&x=%g1", "page=1&x=%1g", "%zz=1&page=1", "page=1&a;b", "a;b&page=1",
	"page=1&sort=asc&cursor=%zz", "cursor=%zz&page=1&sort=asc", "page=1&cursor=%zz&sort=asc",
	"q=1&z=%zz", "z=%zz&q=1&page=1", "page=1&cursor=x&t=%", "cursor=x&;", "page=1&;",
	// ... and the requirement still discriminates
	"page=2&cursor=%zz", "cursor=%zz", "sort=asc&cursor=%zz", "page=1&sort=desc&cursor=%zz", "a;b", "%", "x=%zz&y=%",
	// the malformed pair is (or could be read as) the required one: nothing demanded
	"page=%zz&page=1", "page=1;sort=asc", "page=1%", "sig=a;page=1", "page=1&page=%zz", "pag%e=1", "page=1&sort=asc;x=1",
	// empty pieces, valueless / repeated keys, "=" in the value
	"page=1&", "&page=1", "&&page=1&&sort=asc&", "page=1&=", "page=1&=x", "page", "page=", "page&sort=asc", "page=1=2",
	"page=1&page=2", "page=2&page=1", "=1",
	// escaped spellings of a well-formed pair
	"page=%31", "p%61ge=1", "page=1+", "page=+1", "page=1&sort=%61sc", "page=1&cursor=a%20b", "page=1&cursor=a+b%2Fc", "page=%2531",
}

func qc(name string, methods []string, query ...KV) constraint {
	return constraint{name: name, methods: methods, query: query}
}

// rawQuerySets: flows with query requirements, alone (nothing else catches the
// request when the requirement is judged unmet), next to an unrestricted flow on
// the same URL and next to pattern siblings.
func rawQuerySets() [][]Flow {
	return [][]Flow{
		mkFlows([]string{"a/b"}, []constraint{qc("query", nil, KV{"page", "1"})}),
		mkFlows([]string{"a/b", "a/b"}, []constraint{qc("query", nil, KV{"page", "1"}), {name: "none"}}),
		mkFlows([]string{"a/b", "a/*"}, []constraint{qc("query2", nil, KV{"page", "1"}, KV{"sort", "asc"}), qc("query", nil, KV{"cursor", "x"})}),
		mkFlows([]string{"a/{p}", "a/b"}, []constraint{qc("query", nil, KV{"q", "1"}), qc("query+method", []string{"GET"}, KV{"page", "1"})}),
	}
}

func rawQueryTxns(urls []string, n int) []Txn {
	out := []Txn{}
	for ui, u := range urls {
		for qi, raw := range rawQueries {
			if qi >= n {
				break
			}
			out = append(out, rawTxn(u, "GET", raw, nil))
			if ui == 0 && qi%5 == 2 {
				out = append(out, rawTxn(u, "POST", raw, []KV{{"x-b", "1"}}))
			}
		}
		out = append(out, Txn{Resp: true, URL: u, Method: "GET", Status: 200})
	}
	return out
}

// ---------------------------------------------------------------- header values, letter case

// headerCaseSets: flows that partition traffic by the value of one header, the
// value written in lower case, capitalised and as alternatives.
func headerCaseSets() [][]Flow {
	h := func(name string, kvs ...KV) constraint { return constraint{name: name, headers: kvs} }
	return [][]Flow{
		mkFlows([]string{"a/b", "a/b"}, []constraint{h("header-case", KV{"X-Env", "prod"}), h("header-case", KV{"X-Env", "staging"})}),
		mkFlows([]string{"a/{p}", "a/*"}, []constraint{h("header-case", KV{"x-env", "Prod"}), {name: "none"}}),
		mkFlows([]string{"a/b", "a/b"}, []constraint{
			h("header-case-alt", KV{"X-Env", "prod"}, KV{"X-Env", "Staging"}),
			h("header-case", KV{"Content-Type", "application/JSON"})}),
	}
}

// headerCaseTxns: the header sent in every letter-case spelling of the required
// values, as a different value, as a prefix / extension of it, and absent.
func headerCaseTxns(urls []string) []Txn {
	out := []Txn{}
	for _, u := range urls {
		out = append(out, Txn{URL: u, Method: "GET"})
		for _, v := range []string{"prod", "PROD", "Prod", "pROD", "staging", "Staging", "STAGING", "dev", "pro", "prod2", ""} {
			out = append(out, Txn{URL: u, Method: "GET", Headers: []KV{{"x-env", v}}})
		}
		for _, v := range []string{"application/json", "application/JSON", "Application/Json", "text/plain"} {
			out = append(out, Txn{URL: u, Method: "POST", Headers: []KV{{"content-type", v}, {"x-env", "STAGING"}}})
		}
		out = append(out, Txn{Resp: true, URL: u, Method: "GET", Status: 200, Headers: []KV{{"x-env", "PROD"}}})
	}
	return out
}
