// C03 harness: data types shared by generator, executor, monitor and Coq printer.
package main

import (
	"sort"
	"strings"

	c "verifharness/common"
)

// KV is a header / query-parameter requirement or a request header.
type KV struct {
	K string `json:"k"`
	V string `json:"v"`
}

// Flow is one flow declaration: its filter and its kind.
type Flow struct {
	ID      int      `json:"id"`   // index, also the flow name "f<ID>"
	Kind    int      `json:"kind"` // 0 user, 1 system start, 2 system end
	URL     string   `json:"url"`
	Methods []string `json:"methods,omitempty"`
	Headers []KV     `json:"headers,omitempty"`
	Query   []KV     `json:"query,omitempty"`
	Status  []int    `json:"status,omitempty"`
}

// Txn is one transaction: a request (Resp=false) or a response.
type Txn struct {
	Resp    bool   `json:"resp"`
	URL     string `json:"url"`
	Method  string `json:"method"`
	Headers []KV   `json:"headers,omitempty"` // lower-case keys, sorted
	Query   []KV   `json:"query,omitempty"`   // in order of appearance
	// Raw: the request's query string is RawQ as written (it may contain pairs that
	// cannot be decoded); Query then holds the parameters the harness's own decoder
	// (querydec.go) reads from it = the well-formed pairs
	Raw  bool   `json:"raw,omitempty"`
	RawQ string `json:"rawq,omitempty"`
	Status  int    `json:"status"`
	// Resp && NoResp: the REQUEST stream handled as a response (re-typed after an
	// early response, Stream.executeReq): there is no response object, hence no status
	NoResp bool `json:"noresp,omitempty"`
}

// Obs is what the implementation did for one transaction.
type Obs struct {
	Txn      Txn   `json:"txn"`
	Selected []int `json:"selected"` // sorted ids of the flows returned (all kinds)
	// engine cases only: did ANYTHING happen in Stream.ExecuteFlow (an action
	// returned, a processor run in either direction, an invocation counted)
	Acted *bool `json:"acted,omitempty"`
}

// Case = one flow set loaded in one order + a batch of transactions.
type Case struct {
	Flows  []Flow `json:"flows"` // in load order
	AddErr []bool `json:"add_err"`
	Obs    []Obs  `json:"obs"`
	Engine bool   `json:"engine,omitempty"` // executed through the whole engine (order not forced)
	// the flows were WRITTEN as flow files and read back by the production YAML
	// loader (streamconfig.GetFlows) before AddFlow (tree level; engine cases are
	// always loaded that way).  Such cases are evaluated by Model.run_case_loaded.
	Loader bool `json:"loader,omitempty"`
	// the requests carry raw query strings (Txn.Raw); evaluated by Model.run_case_rawq,
	// which decodes the raw string itself and compares with Txn.Query
	RawQ bool `json:"rawq,omitempty"`
	// results that read differently after the later transactions of the batch were looked up
	Mutated []Mutated `json:"mutated,omitempty"`
}

// Mutated: the held result of transaction Index changed to After.
type Mutated struct {
	Index int   `json:"index"`
	After []int `json:"after"`
}

func flowName(id int) string { return "f" + string(rune('0'+id/10)) + string(rune('0'+id%10)) }

func sortedInts(xs []int) []int {
	out := append([]int{}, xs...)
	sort.Ints(out)
	return out
}

// ---------------------------------------------------------------- Coq printing

// str renders a byte string as (bs "...") (Model.bs turns the literal into byte codes).
func str(s string) string {
	for i := 0; i < len(s); i++ {
		if s[i] < 32 || s[i] > 126 {
			return c.Bytes(s)
		}
	}
	return `(bs "` + strings.ReplaceAll(s, `"`, `""`) + `")`
}

func coqKVs(kvs []KV) string {
	return c.MapList(kvs, func(kv KV) string { return c.Tuple(str(kv.K), str(kv.V)) })
}

func coqFlow(f Flow) string {
	if f.Kind == 0 && len(f.Methods)+len(f.Headers)+len(f.Query)+len(f.Status) == 0 && plain(f.URL) {
		return "(uf " + c.Z(int64(f.ID)) + ` "` + f.URL + `")`
	}
	st := make([]int64, len(f.Status))
	for i, s := range f.Status {
		st[i] = int64(s)
	}
	return "(mkFlow " + strings.Join([]string{
		c.Z(int64(f.ID)), c.Z(int64(f.Kind)), str(f.URL),
		c.MapList(f.Methods, str),
		coqKVs(f.Headers), coqKVs(f.Query), c.ZList(st),
	}, " ") + ")"
}

func plain(s string) bool {
	for i := 0; i < len(s); i++ {
		if s[i] < 32 || s[i] > 126 || s[i] == '"' {
			return false
		}
	}
	return true
}

func coqTxn(t Txn) string { return coqTxnX(t, true) }

func coqTxnFull(t Txn) string { return coqTxnX(t, false) }

func coqTxnX(t Txn, abbrev bool) string {
	if abbrev && t.Method == "GET" && len(t.Headers)+len(t.Query) == 0 && plain(t.URL) {
		if !t.Resp && t.Status == 0 {
			return `(rq "` + t.URL + `")`
		}
		if t.Resp && !t.NoResp && t.Status == 200 {
			return `(rs "` + t.URL + `")`
		}
		if t.Resp && t.NoResp {
			return `(rn "` + t.URL + `")`
		}
	}
	status := int64(t.Status)
	if t.Resp && t.NoResp {
		status = -1 // Model.no_response
	}
	return "(mkTxn " + strings.Join([]string{
		c.B(t.Resp), str(t.URL), str(t.Method), coqKVs(t.Headers), coqKVs(t.Query), c.Z(status),
	}, " ") + ")"
}

// rawTxn: a request whose query string is given as written.
func rawTxn(url, method, raw string, headers []KV) Txn {
	return Txn{URL: url, Method: method, Headers: headers, Raw: true, RawQ: raw, Query: decodeQuery(raw)}
}

// rawQueryOf: the query string put on the wire for the transaction.
func rawQueryOf(t Txn) string {
	if t.Raw {
		return t.RawQ
	}
	return queryString(t.Query)
}

// coqCaseRaw: case_rawq = (flows, load flags, [(observation, raw query string)]).
func coqCaseRaw(k *Case) string {
	return c.Tuple(
		c.MapList(k.Flows, coqFlow),
		c.MapList(k.AddErr, func(b bool) string { return c.B(b) }),
		c.MapList(k.Obs, func(o Obs) string {
			sel := make([]int64, len(o.Selected))
			for i, s := range o.Selected {
				sel[i] = int64(s)
			}
			raw := ""
			if !o.Txn.Resp {
				raw = rawQueryOf(o.Txn)
			}
			return c.Tuple("ob "+coqTxnFull(o.Txn)+" "+c.ZList(sel), str(raw))
		}),
	)
}

func coqCase(k *Case) string {
	return c.Tuple(
		c.MapList(k.Flows, coqFlow),
		c.MapList(k.AddErr, func(b bool) string { return c.B(b) }),
		c.MapList(k.Obs, func(o Obs) string {
			sel := make([]int64, len(o.Selected))
			for i, s := range o.Selected {
				sel[i] = int64(s)
			}
			if o.Acted != nil {
				return "(obe " + coqTxn(o.Txn) + " " + c.ZList(sel) + " " + c.B(*o.Acted) + ")"
			}
			return "(ob " + coqTxn(o.Txn) + " " + c.ZList(sel) + ")"
		}),
	)
}
