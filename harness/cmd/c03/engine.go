package main

func engineSample(r *runner)                               {}
func runEngineCase(r *runner, flows []Flow, txns []Txn) {}
