package main

// Engine-level sample: the same flow sets written as flow YAML files, loaded by
// streams.NewStream().Initialize() (the production loader: Go-map order) and
// driven through Stream.ExecuteFlow.  A flow counts as selected when its (single)
// processor ran in the transaction's direction (verifhook "proc" event); for
// requests Stream.GetFlowInvocations() must agree.  Also checks the pass-through
// clause: nothing selected => no action, no invocation, no processor.

import (
	"fmt"
	"os"
	"path/filepath"
	"sort"
	"strings"
	"sync"

	"lunar/engine/streams"
	stream_config "lunar/engine/streams/config"
	public_types "lunar/engine/streams/public-types"
	"lunar/engine/utils/environment"
	"lunar/engine/verifhook"
	context_manager "lunar/toolkit-core/context-manager"

	c "verifharness/common"
)

var (
	envOnce sync.Once
	evMu    sync.Mutex
	evSink  *[][2]string // (flow, stream type)
)

func repoDir() string {
	if r := os.Getenv("VERIF_REPO"); r != "" {
		return r
	}
	return "/repo"
}

func setupEnv() {
	envOnce.Do(func() {
		environment.SetProcessorsDirectory(filepath.Join(repoDir(),
			"proxy/src/services/lunar-engine/streams/processors/registry"))
		context_manager.Get().SetMockClock()
		verifhook.SetEvent(func(kind string, args ...string) {
			if kind != "proc" || len(args) < 3 {
				return
			}
			evMu.Lock()
			defer evMu.Unlock()
			if evSink != nil {
				*evSink = append(*evSink, [2]string{args[0], args[2]})
			}
		})
	})
}

func yamlKVs(sb *strings.Builder, key string, kvs []KV) {
	if len(kvs) == 0 {
		return
	}
	fmt.Fprintf(sb, "  %s:\n", key)
	for _, kv := range kvs {
		fmt.Fprintf(sb, "    - key: %q\n      value: %q\n", kv.K, kv.V)
	}
}

func flowYAML(f Flow) string {
	var sb strings.Builder
	fmt.Fprintf(&sb, "name: %s\nfilter:\n  url: %q\n", flowName(f.ID), f.URL)
	if len(f.Methods) > 0 {
		sb.WriteString("  method:\n")
		for _, m := range f.Methods {
			fmt.Fprintf(&sb, "    - %s\n", m)
		}
	}
	yamlKVs(&sb, "headers", f.Headers)
	yamlKVs(&sb, "query_params", f.Query)
	if len(f.Status) > 0 {
		sb.WriteString("  status_code:\n")
		for _, s := range f.Status {
			fmt.Fprintf(&sb, "    - %d\n", s)
		}
	}
	sb.WriteString("processors:\n  probe:\n    processor: Filter\n    parameters:\n      - key: header\n        value: x-never=1\n")
	dir := `    - from:
        stream:
          name: globalStream
          at: start
      to:
        processor:
          name: probe
    - from:
        processor:
          name: probe
          condition: hit
      to:
        stream:
          name: globalStream
          at: end
    - from:
        processor:
          name: probe
          condition: miss
      to:
        stream:
          name: globalStream
          at: end
`
	sb.WriteString("flow:\n  request:\n" + dir + "  response:\n" + dir)
	return sb.String()
}

func loadEngine(flows []Flow) (*streams.Stream, error) {
	setupEnv()
	cwd, err := os.Getwd()
	if err != nil {
		return nil, err
	}
	base := filepath.Join(cwd, "cfg")
	os.RemoveAll(base)
	for _, d := range []string{"flows", "quotas", "pp"} {
		if err := os.MkdirAll(filepath.Join(base, d), 0o755); err != nil {
			return nil, err
		}
	}
	for _, f := range flows {
		if err := os.WriteFile(filepath.Join(base, "flows", flowName(f.ID)+".yaml"), []byte(flowYAML(f)), 0o644); err != nil {
			return nil, err
		}
	}
	environment.SetStreamsFlowsDirectory(filepath.Join(base, "flows"))
	environment.SetQuotasDirectory(filepath.Join(base, "quotas"))
	environment.SetPathParamsDirectory(filepath.Join(base, "pp"))
	st, err := streams.NewStream()
	if err != nil {
		return nil, err
	}
	if err := st.Initialize(); err != nil {
		return nil, err
	}
	return st, nil
}

func idOf(name string) int {
	if len(name) == 3 && name[0] == 'f' {
		return int(name[1]-'0')*10 + int(name[2]-'0')
	}
	return -1
}

// runEngineCase: flows must be a set the spec fully orders (no collision, no
// malformed pattern): the Go-map load order is not under the harness's control.
func runEngineCase(r *runner, flows []Flow, txns []Txn) {
	o := r.o
	k := Case{Flows: flows, Engine: true}
	st, err := loadEngine(flows)
	if err != nil {
		o.Note("engine refused flow set " + fmt.Sprint(urlsOf(flows)) + ": " + err.Error())
		o.Count("engine-load-error")
		return
	}
	for range flows {
		k.AddErr = append(k.AddErr, false)
	}
	for _, t := range txns {
		var events [][2]string
		acts := &stream_config.StreamActions{
			Request: &stream_config.RequestStream{}, Response: &stream_config.ResponseStream{},
		}
		before := st.GetFlowInvocations()
		api := mkStream(t)
		evMu.Lock()
		evSink = &events
		evMu.Unlock()
		execErr := st.ExecuteFlow(api, acts)
		evMu.Lock()
		evSink = nil
		evMu.Unlock()
		after := st.GetFlowInvocations()
		want := public_types.StreamTypeRequest.String()
		if t.Resp {
			want = public_types.StreamTypeResponse.String()
		}
		sel := []int{}
		for _, e := range events {
			if e[1] == want {
				sel = append(sel, idOf(e[0]))
			}
		}
		sel = sortedInts(sel)
		inv := []int{}
		for name, n := range after {
			for i := before[name]; i < n; i++ {
				inv = append(inv, idOf(name))
			}
		}
		sort.Ints(inv)
		nact := len(acts.Request.Actions) + len(acts.Response.Actions)
		acted := nact != 0 || len(events) != 0 || len(inv) != 0
		ob := Obs{Txn: t, Selected: sel, Acted: &acted}
		k.Obs = append(k.Obs, ob)
		o.MonitorChecked(2)
		mini := Case{Flows: flows, AddErr: k.AddErr, Obs: []Obs{ob}, Engine: true}
		if execErr != nil {
			o.Hit(c.Hit{Suite: suiteLoaded, Signature: "engine-error:ExecuteFlow", Demanded: "ExecuteFlow succeeds",
				Observed: execErr.Error(), Case: mini})
		}
		if !t.Resp && fmt.Sprint(inv) != fmt.Sprint(sel) {
			o.Hit(c.Hit{Suite: suiteLoaded, Signature: "invocations-differ:executeReq",
				Demanded: fmt.Sprintf("GetFlowInvocations counts exactly the flows whose processors ran (%v)", sel),
				Observed: fmt.Sprintf("invocation deltas %v", inv), Case: mini})
		}
		if len(sel) == 0 {
			if acted {
				o.Hit(c.Hit{Suite: suiteLoaded, Signature: "no-match-action:ExecuteFlow",
					Demanded: "a transaction for which no flow is selected is passed through with no action at all",
					Observed: fmt.Sprintf("%d actions, %d processor runs, invocations %v", nact, len(events), inv), Case: mini})
			}
		}
	}
	idx := o.Case(suiteLoaded, coqCase(&k), k, true)
	o.Count("gen=engine")
	o.CountN("transactions", len(k.Obs))
	for i := range k.Obs {
		o.MonitorChecked(1)
		for _, f := range checkSelection(k.Flows, k.AddErr, &k.Obs[i]) {
			mini := Case{Flows: k.Flows, AddErr: k.AddErr, Obs: []Obs{k.Obs[i]}, Engine: true}
			o.Hit(c.Hit{Suite: suiteLoaded, Index: idx, Signature: f.sig, Demanded: f.demanded, Observed: f.observed, Case: mini})
		}
	}
}

// engineTargeted: flow sets loaded by Stream.Initialize from flow files whose
// filters carry (1) status_code lists in the order written (not ascending,
// duplicates) and (2) upper-case letters in host labels / literal path segments,
// incl. two flows that differ only in letter case; every listed and unlisted
// status, both spellings of every URL; (3) query strings as written and (4)
// letter-case spellings of required header values.
func engineTargeted(r *runner) {
	for _, sl := range statusListSets(r.o.Scale(5, 14, 14)) {
		runEngineCase(r, sl, statusTxns([]string{"a/b", "a/b/c"}, false))
	}
	for _, pats := range letterCaseSets(r.o.Scale(6, 100, 100)) {
		runEngineCase(r, mkFlows(pats, nil), txnsFor(letterCaseURLs(pats), false))
	}
	// query strings as written (malformed sibling pairs) and header-value letter
	// case through Stream.ExecuteFlow (the model gets the harness-decoded parameters)
	for i, fs := range rawQuerySets() {
		if i < r.o.Scale(2, 4, 4) {
			runEngineCase(r, fs, rawQueryTxns([]string{"a/b"}, r.o.Scale(34, 100, 100)))
		}
	}
	for i, fs := range headerCaseSets() {
		if i < r.o.Scale(1, 3, 3) {
			runEngineCase(r, fs, headerCaseTxns([]string{"a/b"}))
		}
	}
}

func engineSample(r *runner) {
	o := r.o
	engineTargeted(r)
	sets := [][]Flow{
		mkFlows([]string{"a/b", "a/b"}, []constraint{constraintVariants[0], constraintVariants[5]}),
		mkFlows([]string{"a/b", "a/b"}, []constraint{constraintVariants[5], constraintVariants[0]}),
		mkFlows([]string{"a/b", "a/b", "a/b"}, []constraint{constraintVariants[3], constraintVariants[4], constraintVariants[0]}),
		mkFlows([]string{"a/b", "a/b/*", "a/*"}, nil),
		mkFlows([]string{"a", "a/*", "*"}, nil),
		mkFlows([]string{"a/{p}", "a/b", "a/{p}/b"}, nil),
		mkFlows([]string{"a.b/a", "a.b/{p}/*", "{p}.b/a"}, nil),
	}
	small := []string{}
	for _, p := range allPatterns(3) {
		if firstTok(p) != "b" && strings.Count(p, ".") < 2 {
			small = append(small, p)
		}
	}
	n := o.Scale(12, 150, 60)
	for len(sets) < n {
		cnt := o.Rng.Range(2, 4)
		t, cs := []string{}, []constraint{}
		for len(t) < cnt {
			t = append(t, small[o.Rng.Intn(len(small))])
			cs = append(cs, constraintVariants[o.Rng.Intn(len(constraintVariants))])
		}
		fs := mkFlows(t, cs)
		if kindCollision(fs) {
			continue
		}
		sets = append(sets, fs)
	}
	for i, fs := range sets {
		pats := []string{}
		for _, f := range fs {
			pats = append(pats, f.URL)
		}
		urls := urlsFor(pats, 1)
		if len(urls) > 10 {
			shuffle(o.Rng, urls)
			urls = urls[:10]
		}
		if i < 3 {
			urls = []string{"a/b", "a/b/c"}
		}
		// a response-typed stream without response object never ENTERS ExecuteFlow
		// (it only arises inside executeReq, property C04): tree-level cases only
		txns := []Txn{}
		for _, t := range txnsFor(urls, true) {
			if !t.NoResp {
				txns = append(txns, t)
			}
		}
		runEngineCase(r, fs, txns)
	}
}
