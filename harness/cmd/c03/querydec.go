package main

// Independent small decoder of a raw query string ("k=v&k=v", RFC 3986 percent
// escapes, "+" = space).  Written by hand (no net/url): it is what hands the
// model and the monitor the parameters a request carries.  A pair that cannot be
// decoded (bad percent escape, lone "%", raw ";") is a MALFORMED pair: it is not a
// parameter; the well-formed pairs next to it are.  The Coq model has its own
// decoder (Model.parse_query / decode_query); suite "rawq" compares the two on
// every generated query string.

import "strings"

// rawPair: one "&"-separated piece of the query string.
type rawPair struct {
	raw     string
	ok      bool   // decodable
	k, v    string // decoded (ok only)
	literal bool   // ok and written without any escape ("%XX", "+"): nothing to interpret
}

func hexVal(c byte) (int, bool) {
	switch {
	case c >= '0' && c <= '9':
		return int(c - '0'), true
	case c >= 'a' && c <= 'f':
		return int(c-'a') + 10, true
	case c >= 'A' && c <= 'F':
		return int(c-'A') + 10, true
	}
	return 0, false
}

// pctDecode: strict = a bad escape fails; otherwise it is kept literally.
func pctDecode(s string, strict bool) (string, bool) {
	var sb strings.Builder
	for i := 0; i < len(s); i++ {
		switch {
		case s[i] == '%':
			if i+2 < len(s) {
				hi, ok1 := hexVal(s[i+1])
				lo, ok2 := hexVal(s[i+2])
				if ok1 && ok2 {
					sb.WriteByte(byte(hi*16 + lo))
					i += 2
					continue
				}
			}
			if strict {
				return "", false
			}
			sb.WriteByte('%')
		case s[i] == '+':
			sb.WriteByte(' ')
		default:
			sb.WriteByte(s[i])
		}
	}
	return sb.String(), true
}

func splitRawQuery(raw string) []rawPair {
	out := []rawPair{}
	for _, piece := range strings.Split(raw, "&") {
		if piece == "" {
			continue // "a=1&&b=2", leading / trailing "&": nothing there
		}
		p := rawPair{raw: piece}
		if !strings.Contains(piece, ";") {
			rk, rv, _ := strings.Cut(piece, "=")
			k, ok1 := pctDecode(rk, true)
			v, ok2 := pctDecode(rv, true)
			if ok1 && ok2 {
				p.ok, p.k, p.v = true, k, v
				p.literal = !strings.ContainsAny(piece, "%+")
			}
		}
		out = append(out, p)
	}
	return out
}

// decodeQuery: the parameters the request carries = its well-formed pairs, in
// order of appearance.
func decodeQuery(raw string) []KV {
	out := []KV{}
	for _, p := range splitRawQuery(raw) {
		if p.ok {
			out = append(out, KV{p.k, p.v})
		}
	}
	if len(out) == 0 {
		return nil
	}
	return out
}

// malformedTouches: some malformed pair of the query string could, under another
// reading (";" as a separator, a bad escape kept literally), be a pair for key:
// the text does not say what such a pair means, the monitor then demands nothing
// about a requirement on that key.
func malformedTouches(raw, key string) bool {
	for _, p := range splitRawQuery(raw) {
		if p.ok {
			continue
		}
		for _, piece := range strings.Split(p.raw, ";") {
			rk, _, _ := strings.Cut(piece, "=")
			if k, _ := pctDecode(rk, false); k == key || rk == key {
				return true
			}
		}
	}
	return false
}

// escapedPairFor: a well-formed pair for key is written with escapes (in key or
// value): that it is decoded the usual way is not something the property text says.
func escapedPairFor(raw, key string) bool {
	for _, p := range splitRawQuery(raw) {
		if p.ok && p.k == key && !p.literal {
			return true
		}
	}
	return false
}
