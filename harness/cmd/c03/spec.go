package main

// Independent monitor: the property text restated over (flow set, transaction,
// selected flows).  Nothing here calls the implementation or mirrors the trie.
//
//   literal part  = equal token of the same kind (host label / path segment)
//   {p}           = exactly one part of the same kind
//   trailing *    = the rest of the URL; at least one further part of the kind
//                   the * was written in (the text does not say whether it
//                   also covers "nothing left": either answer is accepted)
//
// Verdicts are three-valued: Must (property demands selection, unless
// shadowed), MustNot (property forbids selection), May (text does not decide).

import (
	"fmt"
	"strings"
)

type verdict int

const (
	MustNot verdict = iota
	May
	Must
)

func (v verdict) String() string { return [...]string{"must-not", "may", "must"}[v] }

func vAnd(a, b verdict) verdict {
	if a < b {
		return a
	}
	return b
}

type spart struct {
	host bool
	tok  string
}

// specSplit: "<label>.<label>/<seg>/<seg>".  keepTrailing keeps an empty last
// segment when the URL ends in "/".
func specSplit(url string, keepTrailing bool) []spart {
	if !keepTrailing {
		url = strings.TrimRight(url, "/")
	}
	hostStr, pathStr, hasPath := strings.Cut(url, "/")
	out := []spart{}
	for _, l := range strings.Split(hostStr, ".") {
		out = append(out, spart{true, l})
	}
	if hasPath {
		for _, s := range strings.Split(pathStr, "/") {
			out = append(out, spart{false, s})
		}
	}
	return out
}

func isParam(t string) bool { return len(t) >= 2 && t[0] == '{' && t[len(t)-1] == '}' }

// patternOK: every token non-empty, * only as the very last part.
func patternOK(p []spart) bool {
	for i, x := range p {
		if x.tok == "" || (x.tok == "*" && i != len(p)-1) {
			return false
		}
	}
	return true
}

func matchParts(p, u []spart, laxStar bool) verdict {
	for i, x := range p {
		if x.tok == "*" {
			rest := u[i:]
			if len(rest) == 0 {
				return May
			}
			if rest[0].host == x.host || laxStar {
				return Must
			}
			return MustNot
		}
		if i >= len(u) || u[i].host != x.host {
			return MustNot
		}
		if !isParam(x.tok) && x.tok != u[i].tok {
			return MustNot
		}
		if u[i].tok == "" {
			return May // an empty segment under a literal never matches; under {p} undecided
		}
	}
	if len(u) == len(p) {
		return Must
	}
	return MustNot
}

func specURL(pat, url string) verdict { return specURLx(pat, url, false) }

// specURLx: laxStar lets a trailing * written as a path segment also swallow
// further host labels (used only to classify the open finding F-C03f).
func specURLx(pat, url string, laxStar bool) verdict {
	p := specSplit(pat, false)
	for _, x := range specSplit(url, false) {
		if x.tok == "" {
			return May // "a//b", ".a/b", "a." ...: not a URL shape the text speaks about
		}
	}
	a := matchParts(p, specSplit(url, false), laxStar)
	if strings.HasSuffix(url, "/") {
		// whether a trailing "/" is significant is not fixed by the text
		if b := matchParts(p, specSplit(url, true), laxStar); a != b {
			return May
		}
	}
	return a
}

var defaultMethods = map[string]bool{"GET": true, "POST": true, "PUT": true, "DELETE": true, "PATCH": true}

// specConstraints: the flow's OWN method / header / query / status requirements.
func specConstraints(f *Flow, t *Txn) verdict {
	v := Must
	if len(f.Methods) > 0 {
		ok := false
		for _, m := range f.Methods {
			ok = ok || m == t.Method
		}
		if !ok {
			return MustNot
		}
	} else if f.Kind != 0 && !defaultMethods[t.Method] {
		v = vAnd(v, May) // system flows without methods: the five default verbs only (not in the text)
	}
	if t.Resp {
		if len(f.Status) > 0 {
			ok := false
			for _, s := range f.Status {
				ok = ok || s == t.Status
			}
			if !ok {
				return MustNot
			}
		}
		if len(f.Headers) > 0 || len(f.Query) > 0 {
			v = vAnd(v, May) // request-side requirements cannot be judged on a response
		}
		return v
	}
	// request: headers (AND over keys; several values for one key = alternatives)
	byKey := map[string][]string{}
	for _, h := range f.Headers {
		byKey[strings.ToLower(h.K)] = append(byKey[strings.ToLower(h.K)], h.V)
	}
	for k, vals := range byKey {
		have, present := "", false
		for _, th := range t.Headers {
			if strings.ToLower(th.K) == k {
				have, present = th.V, true
			}
		}
		exact, fold := 0, 0
		for _, want := range vals {
			if present && want == have {
				exact++
			}
			if present && strings.EqualFold(want, have) {
				fold++
			}
		}
		switch {
		case fold == 0:
			return MustNot
		case exact == len(vals): // every listed value satisfied
		default:
			v = vAnd(v, May) // case-folded match or only one of several alternatives
		}
	}
	for _, q := range f.Query {
		first, any, n := false, false, 0
		for _, tq := range t.Query {
			if tq.K == q.K {
				if n == 0 && tq.V == q.V {
					first = true
				}
				if tq.V == q.V {
					any = true
				}
				n++
			}
		}
		switch {
		case !any:
			return MustNot
		case first && n == 1:
		default:
			v = vAnd(v, May)
		}
	}
	return v
}

func specFlow(f *Flow, t *Txn) verdict {
	return vAnd(specURL(f.URL, t.URL), specConstraints(f, t))
}

// sameStep: the two pattern parts denote the same trie step.
func sameStep(a, b spart) bool {
	if isParam(a.tok) || isParam(b.tok) {
		return isParam(a.tok) && isParam(b.tok)
	}
	return a.tok == b.tok
}

// shadowed: "a more specific literal pattern is configured alongside": some other
// loaded pattern agrees with f's pattern up to a position where f has a
// parameter and the other one has the literal the URL carries there.
func shadowed(f *Flow, flows []Flow, url string) bool {
	p := specSplit(f.URL, false)
	u := specSplit(url, false)
	for _, g := range flows {
		q := specSplit(g.URL, false)
		for i := 0; i < len(p) && i < len(q) && i < len(u); i++ {
			if isParam(p[i].tok) && !isParam(q[i].tok) && q[i].tok != "*" && q[i].tok == u[i].tok {
				return true
			}
			if !sameStep(p[i], q[i]) {
				break
			}
		}
	}
	return false
}

// kindCollision: two patterns reach the same step position through identical
// steps but disagree on whether that step is a host label or a path segment
// (e.g. "api.com.v1/x" and "api.com/v1").  Open finding F-C03c.
func kindCollision(flows []Flow) bool {
	for i := range flows {
		for j := range flows {
			p, q := specSplit(flows[i].URL, false), specSplit(flows[j].URL, false)
			for n := 0; n < len(p) && n < len(q); n++ {
				same := sameStep(p[n], q[n]) || (p[n].tok == "*" && q[n].tok == "*")
				if !same {
					break
				}
				if p[n].host != q[n].host {
					return true
				}
			}
		}
	}
	return false
}

type finding struct {
	sig, demanded, observed string
}

// checkSelection judges one observation of one loaded flow set.
func checkSelection(flows []Flow, addErr []bool, o *Obs) []finding {
	var out []finding
	sel := map[int]int{}
	for _, id := range o.Selected {
		sel[id]++
	}
	collide := kindCollision(flows)
	wellFormedSet := allWellFormed(flows) // a malformed declaration alongside may disturb others: not judged
	tag := func(s string) string {
		if collide {
			return "host-path-collision:insert"
		}
		return s
	}
	for i := range flows {
		f := &flows[i]
		if i < len(addErr) && addErr[i] {
			continue
		}
		if !patternOK(specSplit(f.URL, false)) {
			continue // not a well-formed pattern: the text says nothing about it
		}
		v := specFlow(f, &o.Txn)
		n := sel[f.ID]
		switch {
		case n > 1:
			out = append(out, finding{tag("duplicate:GetFlow"), "a flow is applied at most once",
				fmt.Sprintf("flow %s (%s) returned %d times for %s", flowName(f.ID), f.URL, n, o.Txn.URL)})
		case n > 0 && v == MustNot:
			sig := tag("unsound-url:lookupFlow")
			if specURL(f.URL, o.Txn.URL) != MustNot {
				sig = tag("unsound-constraint:qualify")
			} else if specURLx(f.URL, o.Txn.URL, true) != MustNot {
				sig = "wildcard-kind:lookupFlow" // a.com/* selected for a.com.x/... (F-C03f)
			}
			out = append(out, finding{sig,
				fmt.Sprintf("flow %s (filter %s) must not be applied: transaction does not satisfy its own filter", flowName(f.ID), f.URL),
				fmt.Sprintf("selected for %s %s (selected=%v)", o.Txn.Method, o.Txn.URL, o.Selected)})
		case n == 0 && v == Must && wellFormedSet && !shadowed(f, flows, o.Txn.URL):
			out = append(out, finding{tag("incomplete:lookupFlow"),
				fmt.Sprintf("flow %s (filter %s) is satisfied and no more specific literal pattern is configured alongside: must be applied", flowName(f.ID), f.URL),
				fmt.Sprintf("not selected for %s %s (selected=%v)", o.Txn.Method, o.Txn.URL, o.Selected)})
		}
	}
	return out
}
