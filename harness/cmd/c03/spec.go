package main

// Independent monitor: the property text restated over (flow set, transaction,
// selected flows).  Nothing here calls the implementation or mirrors the trie.
//
//   literal part  = equal token of the same kind (host label / path segment)
//   {p}           = exactly one part of the same kind
//   trailing *    = the rest of the URL; at least one further part of the kind
//                   the * was written in (the text does not say whether it
//                   also covers "nothing left": either answer is accepted)
//
// Verdicts are three-valued: Must (property demands selection, unless
// shadowed), MustNot (property forbids selection), May (text does not decide).

import (
	"fmt"
	"strings"
)

type verdict int

const (
	MustNot verdict = iota
	May
	Must
)

func (v verdict) String() string { return [...]string{"must-not", "may", "must"}[v] }

func vAnd(a, b verdict) verdict {
	if a < b {
		return a
	}
	return b
}

type spart struct {
	host bool
	tok  string
}

// specSplit: "<label>.<label>/<seg>/<seg>".  keepTrailing keeps an empty last
// segment when the URL ends in "/".
func specSplit(url string, keepTrailing bool) []spart {
	if !keepTrailing {
		url = strings.TrimRight(url, "/")
	}
	hostStr, pathStr, hasPath := strings.Cut(url, "/")
	out := []spart{}
	for _, l := range strings.Split(hostStr, ".") {
		out = append(out, spart{true, l})
	}
	if hasPath {
		for _, s := range strings.Split(pathStr, "/") {
			out = append(out, spart{false, s})
		}
	}
	return out
}

func isParam(t string) bool { return len(t) >= 2 && t[0] == '{' && t[len(t)-1] == '}' }

// patternOK: every token non-empty, * only as the very last part.
func patternOK(p []spart) bool {
	for i, x := range p {
		if x.tok == "" || (x.tok == "*" && i != len(p)-1) {
			return false
		}
	}
	return true
}

func matchParts(p, u []spart, laxStar bool) verdict {
	v := matchPartsV(p, u, laxStar)
	if v == MustNot {
		return v
	}
	// a host label that equals the pattern's only up to letter case: host names
	// are case-insensitive, the text does not say which reading applies (May).
	// Literal PATH segments are compared as written.
	for i, x := range p {
		if i < len(u) && x.host && x.tok != "*" && !isParam(x.tok) && x.tok != u[i].tok {
			return May
		}
	}
	return v
}

// litEq: equal, or (host labels only) equal up to ASCII letter case.
func litEq(x, u spart) bool {
	if x.tok == u.tok {
		return true
	}
	return x.host && strings.EqualFold(x.tok, u.tok)
}

func matchPartsV(p, u []spart, laxStar bool) verdict {
	for i, x := range p {
		if x.tok == "*" {
			rest := u[i:]
			if len(rest) == 0 {
				return May
			}
			if rest[0].host == x.host || laxStar {
				return Must
			}
			return MustNot
		}
		if i >= len(u) || u[i].host != x.host {
			return MustNot
		}
		if !isParam(x.tok) && !litEq(x, u[i]) {
			return MustNot
		}
		if u[i].tok == "" {
			return May // an empty segment under a literal never matches; under {p} undecided
		}
	}
	if len(u) == len(p) {
		return Must
	}
	return MustNot
}

func specURL(pat, url string) verdict { return specURLx(pat, url, false) }

// specURLx: laxStar lets a trailing * written as a path segment also swallow
// further host labels (used only to classify the open finding F-C03f).
func specURLx(pat, url string, laxStar bool) verdict {
	p := specSplit(pat, false)
	for _, x := range specSplit(url, false) {
		if x.tok == "" {
			return May // "a//b", ".a/b", "a." ...: not a URL shape the text speaks about
		}
	}
	a := matchParts(p, specSplit(url, false), laxStar)
	if strings.HasSuffix(url, "/") {
		// whether a trailing "/" is significant is not fixed by the text
		if b := matchParts(p, specSplit(url, true), laxStar); a != b {
			return May
		}
	}
	return a
}

var defaultMethods = map[string]bool{"GET": true, "POST": true, "PUT": true, "DELETE": true, "PATCH": true}

// specConstraints: the flow's OWN method / header / query / status requirements.
func specConstraints(f *Flow, t *Txn) verdict {
	v := Must
	if len(f.Methods) > 0 {
		ok := false
		for _, m := range f.Methods {
			ok = ok || m == t.Method
		}
		if !ok {
			return MustNot
		}
	} else if f.Kind != 0 && !defaultMethods[t.Method] {
		v = vAnd(v, May) // system flows without methods: the five default verbs only (not in the text)
	}
	if t.Resp {
		if len(f.Status) > 0 && t.NoResp {
			return MustNot // a status requirement can only be met by a response that has a status
		}
		if len(f.Status) > 0 {
			ok := false
			for _, s := range f.Status {
				ok = ok || s == t.Status
			}
			if !ok {
				return MustNot
			}
		}
		if len(f.Headers) > 0 || len(f.Query) > 0 {
			v = vAnd(v, May) // request-side requirements cannot be judged on a response
		}
		return v
	}
	// request: headers (AND over keys; several values for one key = alternatives)
	byKey := map[string][]string{}
	for _, h := range f.Headers {
		byKey[strings.ToLower(h.K)] = append(byKey[strings.ToLower(h.K)], h.V)
	}
	for k, vals := range byKey {
		have, present := "", false
		for _, th := range t.Headers {
			if strings.ToLower(th.K) == k {
				have, present = th.V, true
			}
		}
		exact, fold := 0, 0
		for _, want := range vals {
			if present && want == have {
				exact++
			}
			if present && strings.EqualFold(want, have) {
				fold++
			}
		}
		switch {
		case fold == 0:
			return MustNot
		case exact == len(vals): // every listed value satisfied
		default:
			v = vAnd(v, May) // case-folded match or only one of several alternatives
		}
	}
	for _, q := range f.Query {
		first, any, n := false, false, 0
		for _, tq := range t.Query {
			if tq.K == q.K {
				if n == 0 && tq.V == q.V {
					first = true
				}
				if tq.V == q.V {
					any = true
				}
				n++
			}
		}
		// a query string given as written: a malformed pair (bad escape, lone "%",
		// raw ";") is not a parameter and does not take the well-formed pairs next
		// to it away: the requirement is judged on the well-formed pairs.  Only when
		// a malformed pair could itself be read as a pair for THIS key, or the pair
		// for this key is written with escapes, the text does not decide.
		if t.Raw && (malformedTouches(t.RawQ, q.K) || escapedPairFor(t.RawQ, q.K)) {
			v = vAnd(v, May)
			continue
		}
		switch {
		case !any:
			return MustNot
		case first && n == 1:
		default:
			v = vAnd(v, May)
		}
	}
	return v
}

func specFlow(f *Flow, t *Txn) verdict {
	return vAnd(specURL(f.URL, t.URL), specConstraints(f, t))
}

// sameStep: the two pattern parts denote the same trie step.
func sameStep(a, b spart) bool {
	if isParam(a.tok) || isParam(b.tok) {
		return isParam(a.tok) && isParam(b.tok)
	}
	return a.tok == b.tok
}

// lookupParts: the URL as the look-up splits it (leading / trailing "." and "/"
// dropped): the side conditions of the known findings are stated on these parts.
func lookupParts(url string) []spart { return specSplit(strings.Trim(url, "./"), false) }

// moreSpecific: pattern q is more specific than pattern p for the URL u: q agrees
// with p step by step up to a position where p has a parameter and q carries
// the URL's token literally, as a part of the same kind (host label / path
// segment) as the URL's part.  (= Coq more_specific_from)
func moreSpecific(p, q, u []spart) bool {
	for i := 0; i < len(p) && i < len(q) && i < len(u); i++ {
		if isParam(p[i].tok) && !isParam(q[i].tok) && q[i].tok != "*" &&
			q[i].tok == u[i].tok && q[i].host == u[i].host {
			return true
		}
		if !sameStep(p[i], q[i]) {
			break
		}
	}
	return false
}

// shadowedK: "a more specific literal pattern is configured alongside", read
// broadly: SOME configured pattern is more specific than f's for this URL,
// whether or not that pattern accepts the URL.  (= Coq shadowed_k = negb unshadowed_k)
func shadowedK(f *Flow, flows []Flow, url string) bool {
	p, u := specSplit(f.URL, false), lookupParts(url)
	for _, g := range flows {
		if moreSpecific(p, specSplit(g.URL, false), u) {
			return true
		}
	}
	return false
}

// shadowedByMatching: the natural reading of the proviso: a more specific
// pattern that itself accepts the URL is configured.  "Accepts" in the most
// generous reading (a trailing * takes any remainder, also none, of any kind),
// so that the monitor never demands a flow the text might exempt.
// (= Coq shadowed_by_matching with accepts_may)
func shadowedByMatching(f *Flow, flows []Flow, url string) bool {
	p, u := specSplit(f.URL, false), lookupParts(url)
	for _, g := range flows {
		if moreSpecific(p, specSplit(g.URL, false), u) && specURLx(g.URL, url, true) != MustNot {
			return true
		}
	}
	return false
}

// stepFits: the look-up reads the kind of a node only when the node's step
// accepts the URL's token: a literal equal to it, or a parameter (the kind of a
// wildcard child is never read).
func stepFits(s, u spart) bool {
	if isParam(s.tok) {
		return true
	}
	return s.tok != "*" && s.tok == u.tok
}

// kindCompatOn: patterns p and q do not collide (host label vs path segment) on
// a node the look-up of u reads.  (= Coq kind_compat_on)
func kindCompatOn(u, p, q []spart) bool {
	for n := 0; n < len(u) && n < len(p) && n < len(q); n++ {
		if !(sameStep(p[n], q[n]) && stepFits(p[n], u[n])) {
			return true
		}
		if p[n].host != q[n].host {
			return false
		}
	}
	return true
}

// kcAt: no configured pattern collides with f's on this URL (open finding
// F-C03c, localised to the flow and the URL in question = Coq kc_at).
func kcAt(flows []Flow, f *Flow, url string) bool {
	u, p := lookupParts(url), specSplit(f.URL, false)
	for i := range flows {
		if !kindCompatOn(u, p, specSplit(flows[i].URL, false)) {
			return false
		}
	}
	return true
}

// kcURL: no two configured patterns collide on this URL (= Coq kc_url).
func kcURL(flows []Flow, url string) bool {
	for i := range flows {
		if !kcAt(flows, &flows[i], url) {
			return false
		}
	}
	return true
}

// kindCollision: two patterns reach the same step position through identical
// steps but disagree on whether that step is a host label or a path segment
// (e.g. "api.com.v1/x" and "api.com/v1").  Open finding F-C03c, GLOBAL form (=
// Coq kind_consistent): only used to pick engine-level samples whose selection
// cannot depend on the Go-map load order; hits are classified with kcAt / kcURL.
func kindCollision(flows []Flow) bool {
	for i := range flows {
		for j := range flows {
			p, q := specSplit(flows[i].URL, false), specSplit(flows[j].URL, false)
			for n := 0; n < len(p) && n < len(q); n++ {
				same := sameStep(p[n], q[n]) || (p[n].tok == "*" && q[n].tok == "*")
				if !same {
					break
				}
				if p[n].host != q[n].host {
					return true
				}
			}
		}
	}
	return false
}

type finding struct {
	sig, demanded, observed string
}

// checkSelection judges one observation of one loaded flow set.
func checkSelection(flows []Flow, addErr []bool, o *Obs) []finding {
	var out []finding
	sel := map[int]int{}
	for _, id := range o.Selected {
		sel[id]++
	}
	wellFormedSet := allWellFormed(flows) // a malformed declaration alongside may disturb others: not judged
	for i := range flows {
		f := &flows[i]
		if i < len(addErr) && addErr[i] {
			continue
		}
		if !patternOK(specSplit(f.URL, false)) {
			continue // not a well-formed pattern: the text says nothing about it
		}
		// F-C03c excuses a hit only when a configured pattern collides with THIS
		// flow's pattern on a node the look-up of THIS URL reads
		collide := !kcAt(flows, f, o.Txn.URL)
		tag := func(s string) string {
			if collide {
				return "host-path-collision:insert"
			}
			return s
		}
		v := specFlow(f, &o.Txn)
		n := sel[f.ID]
		switch {
		case n > 1:
			// never excused: no collision makes a flow run twice (C03_at_most_once)
			out = append(out, finding{"duplicate:GetFlow", "a flow is applied at most once",
				fmt.Sprintf("flow %s (%s) returned %d times for %s", flowName(f.ID), f.URL, n, o.Txn.URL)})
		case n > 0 && v == MustNot:
			sig := tag("unsound-url:lookupFlow")
			if specURL(f.URL, o.Txn.URL) != MustNot {
				// the flow's own constraints: no collision excuses that (C03_selected_own_constraints)
				sig = "unsound-constraint:qualify"
			} else if specURLx(f.URL, o.Txn.URL, true) != MustNot {
				sig = "wildcard-kind:lookupFlow" // a.com/* selected for a.com.x/... (F-C03f)
			}
			out = append(out, finding{sig,
				fmt.Sprintf("flow %s (filter %s) must not be applied: transaction does not satisfy its own filter", flowName(f.ID), f.URL),
				fmt.Sprintf("selected for %s %s (selected=%v)", o.Txn.Method, o.Txn.URL, o.Selected)})
		case n == 0 && v == Must && wellFormedSet && !shadowedK(f, flows, o.Txn.URL):
			out = append(out, finding{tag("incomplete:lookupFlow"),
				fmt.Sprintf("flow %s (filter %s) is satisfied and no more specific literal pattern is configured alongside: must be applied", flowName(f.ID), f.URL),
				fmt.Sprintf("not selected for %s %s (selected=%v)", o.Txn.Method, o.Txn.URL, o.Selected)})
		case n == 0 && v == Must && wellFormedSet && !shadowedByMatching(f, flows, o.Txn.URL):
			// shadowed only by patterns that do NOT accept this URL: the look-up
			// committed to the literal child and never came back (F-C03g)
			out = append(out, finding{tag("no-backtrack:lookupFlow"),
				fmt.Sprintf("flow %s (filter %s) is satisfied and no configured pattern that accepts %s is more specific: must be applied", flowName(f.ID), f.URL, o.Txn.URL),
				fmt.Sprintf("not selected for %s %s (selected=%v): a more specific pattern that does not accept the URL took the look-up away", o.Txn.Method, o.Txn.URL, o.Selected)})
		}
	}
	return out
}
