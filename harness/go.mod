module verifharness

go 1.22.0

require (
	github.com/rs/zerolog v1.31.0
	lunar/engine v0.0.0
	lunar/shared-model v0.0.0
	lunar/toolkit-core v0.0.0
)

require (
	github.com/gabriel-vasile/mimetype v1.4.3 // indirect
	github.com/go-playground/locales v0.14.1 // indirect
	github.com/go-playground/universal-translator v0.18.1 // indirect
	github.com/go-playground/validator/v10 v10.16.0 // indirect
	github.com/goccy/go-json v0.10.2 // indirect
	github.com/gorilla/websocket v1.5.1 // indirect
	github.com/leodido/go-urn v1.2.4 // indirect
	github.com/mattn/go-colorable v0.1.13 // indirect
	github.com/mattn/go-isatty v0.0.20 // indirect
	github.com/negasus/haproxy-spoe-go v1.0.5 // indirect
	github.com/ohler55/ojg v1.26.1 // indirect
	github.com/samber/lo v1.44.0 // indirect
	golang.org/x/crypto v0.24.0 // indirect
	golang.org/x/exp v0.0.0-20231214170342-aacd6d4b4611 // indirect
	golang.org/x/net v0.26.0 // indirect
	golang.org/x/sys v0.30.0 // indirect
	golang.org/x/text v0.16.0 // indirect
	gopkg.in/yaml.v3 v3.0.1 // indirect
)

replace lunar/engine v0.0.0 => /repo/proxy/src/services/lunar-engine

replace lunar/toolkit-core v0.0.0 => /repo/proxy/src/libs/toolkit-core

replace lunar/shared-model v0.0.0 => /repo/proxy/src/libs/shared-model
