module verifharness

go 1.22.0

require (
	github.com/negasus/haproxy-spoe-go v1.0.5
	github.com/rs/zerolog v1.31.0
	go.opentelemetry.io/otel/metric v1.21.0
	lunar/aggregation-plugin v0.0.0
	lunar/engine v0.0.0
	lunar/shared-model v0.0.0
	lunar/toolkit-core v0.0.0
)

replace lunar/engine v0.0.0 => /repo/proxy/src/services/lunar-engine

replace lunar/toolkit-core v0.0.0 => /repo/proxy/src/libs/toolkit-core

replace lunar/shared-model v0.0.0 => /repo/proxy/src/libs/shared-model

replace lunar/aggregation-plugin v0.0.0 => /repo/proxy/src/services/aggregation-output-plugin

require (
	github.com/PaesslerAG/gval v1.0.0 // indirect
	github.com/PaesslerAG/jsonpath v0.1.1 // indirect
	github.com/aavaz-ai/pii-scrubber v0.0.0-20220812094047-3fa450ab6973 // indirect
	github.com/alicebob/gopher-json v0.0.0-20200520072559-a9ecdc9d1d3a // indirect
	github.com/alicebob/miniredis/v2 v2.33.0 // indirect
	github.com/anshal21/go-worker v1.1.0 // indirect
	github.com/beorn7/perks v1.0.1 // indirect
	github.com/cenkalti/backoff/v4 v4.2.1 // indirect
	github.com/cespare/xxhash/v2 v2.2.0 // indirect
	github.com/davecgh/go-spew v1.1.2-0.20180830191138-d8f796af33cc // indirect
	github.com/deckarep/golang-set/v2 v2.8.0 // indirect
	github.com/dgryski/go-rendezvous v0.0.0-20200823014737-9f7001d12a5f // indirect
	github.com/dlclark/regexp2 v1.11.4 // indirect
	github.com/dop251/goja v0.0.0-20250309171923-bcd7cc6bf64c // indirect
	github.com/fluent/fluent-bit-go v0.0.0-20230731091245-a7a013e2473c // indirect
	github.com/gabriel-vasile/mimetype v1.4.3 // indirect
	github.com/go-logr/logr v1.4.2 // indirect
	github.com/go-logr/stdr v1.2.2 // indirect
	github.com/go-playground/locales v0.14.1 // indirect
	github.com/go-playground/universal-translator v0.18.1 // indirect
	github.com/go-playground/validator/v10 v10.16.0 // indirect
	github.com/go-sourcemap/sourcemap v2.1.3+incompatible // indirect
	github.com/goccy/go-json v0.10.2 // indirect
	github.com/golang/protobuf v1.5.4 // indirect
	github.com/google/pprof v0.0.0-20230207041349-798e818bf904 // indirect
	github.com/google/uuid v1.6.0 // indirect
	github.com/gorilla/websocket v1.5.1 // indirect
	github.com/grpc-ecosystem/grpc-gateway/v2 v2.18.1 // indirect
	github.com/leodido/go-urn v1.2.4 // indirect
	github.com/mattn/go-colorable v0.1.13 // indirect
	github.com/mattn/go-isatty v0.0.20 // indirect
	github.com/matttproud/golang_protobuf_extensions/v2 v2.0.0 // indirect
	github.com/ohler55/ojg v1.26.1 // indirect
	github.com/pkg/errors v0.9.1 // indirect
	github.com/pkoukk/tiktoken-go v0.1.7 // indirect
	github.com/pmezard/go-difflib v1.0.1-0.20181226105442-5d4384ee4fb2 // indirect
	github.com/prometheus/client_golang v1.17.0 // indirect
	github.com/prometheus/client_model v0.5.0 // indirect
	github.com/prometheus/common v0.45.0 // indirect
	github.com/prometheus/procfs v0.12.0 // indirect
	github.com/redis/go-redis/v9 v9.3.0 // indirect
	github.com/rogpeppe/go-internal v1.12.0 // indirect
	github.com/samber/lo v1.44.0 // indirect
	github.com/stretchr/objx v0.5.2 // indirect
	github.com/stretchr/testify v1.10.0 // indirect
	github.com/ugorji/go/codec v1.2.12 // indirect
	github.com/valyala/fastjson v1.6.4 // indirect
	github.com/yuin/gopher-lua v1.1.1 // indirect
	go.opentelemetry.io/contrib/propagators/b3 v1.21.0 // indirect
	go.opentelemetry.io/otel v1.21.0 // indirect
	go.opentelemetry.io/otel/exporters/otlp/otlptrace v1.21.0 // indirect
	go.opentelemetry.io/otel/exporters/otlp/otlptrace/otlptracegrpc v1.21.0 // indirect
	go.opentelemetry.io/otel/exporters/prometheus v0.44.0 // indirect
	go.opentelemetry.io/otel/sdk v1.21.0 // indirect
	go.opentelemetry.io/otel/sdk/metric v1.21.0 // indirect
	go.opentelemetry.io/otel/trace v1.21.0 // indirect
	go.opentelemetry.io/proto/otlp v1.0.0 // indirect
	golang.org/x/crypto v0.24.0 // indirect
	golang.org/x/exp v0.0.0-20231214170342-aacd6d4b4611 // indirect
	golang.org/x/net v0.26.0 // indirect
	golang.org/x/sys v0.30.0 // indirect
	golang.org/x/text v0.16.0 // indirect
	google.golang.org/genproto/googleapis/api v0.0.0-20231212172506-995d672761c0 // indirect
	google.golang.org/genproto/googleapis/rpc v0.0.0-20231212172506-995d672761c0 // indirect
	google.golang.org/grpc v1.60.0 // indirect
	google.golang.org/protobuf v1.34.2 // indirect
	gopkg.in/yaml.v2 v2.4.0 // indirect
	gopkg.in/yaml.v3 v3.0.1 // indirect
)
