// Package common: shared plumbing of the per-property harness binaries.
//
// A harness binary generates cases from one PRNG state (VERIF_SEED / -seed),
// executes them on the implementation under /repo, runs the property monitor
// over what the implementation did, and writes
//
//	<out>/<suite>_NNN.v     shards of cases as Coq terms (inputs + observed outputs);
//	                        coqc evaluates the model on them with vm_compute
//	<out>/<suite>.jsonl     the same cases as JSON (evidence, replay files)
//	<out>/summary.json      counts, distribution, samples, monitor hits
package common

import (
	"bufio"
	"crypto/sha256"
	"encoding/hex"
	"encoding/json"
	"flag"
	"fmt"
	"os"
	"path/filepath"
	"sort"
	"strconv"
	"strings"
)

// ---------------------------------------------------------------- PRNG

type Rng struct{ s uint64 }

func NewRng(seed uint64) *Rng { return &Rng{s: seed*0x9E3779B97F4A7C15 + 0x1234567} }

func (r *Rng) Next() uint64 {
	r.s += 0x9E3779B97F4A7C15
	z := r.s
	z = (z ^ (z >> 30)) * 0xBF58476D1CE4E5B9
	z = (z ^ (z >> 27)) * 0x94D049BB133111EB
	return z ^ (z >> 31)
}
func (r *Rng) Intn(n int) int {
	if n <= 0 {
		return 0
	}
	return int(r.Next() % uint64(n))
}
func (r *Rng) Range(lo, hi int) int { return lo + r.Intn(hi-lo+1) } // inclusive
func (r *Rng) Bool() bool           { return r.Next()&1 == 1 }
func (r *Rng) Chance(num, den int) bool {
	return r.Intn(den) < num
}
func Pick[T any](r *Rng, xs []T) T { return xs[r.Intn(len(xs))] }

// Fork derives an independent stream (so that adding draws in one place does
// not shift every later case).
func (r *Rng) Fork(tag uint64) *Rng { return NewRng(r.Next() ^ tag*0xD6E8FEB86659FD93) }

// ---------------------------------------------------------------- Coq terms

func Z(i int64) string {
	if i < 0 {
		return "(" + strconv.FormatInt(i, 10) + ")"
	}
	return strconv.FormatInt(i, 10)
}
func N(i uint64) string { return strconv.FormatUint(i, 10) + "%N" }
func Nat(i int) string  { return strconv.Itoa(i) + "%nat" }
func B(b bool) string {
	if b {
		return "true"
	}
	return "false"
}
func List(items []string) string { return "[" + strings.Join(items, "; ") + "]" }
func Tuple(items ...string) string {
	return "(" + strings.Join(items, ", ") + ")"
}
func Some(x string) string { return "(Some " + x + ")" }
func OptZ(p *int64) string {
	if p == nil {
		return "None"
	}
	return Some(Z(*p))
}
func ZList(xs []int64) string {
	it := make([]string, len(xs))
	for i, x := range xs {
		it[i] = Z(x)
	}
	return List(it)
}

// Bytes renders a byte string as a list of Z character codes.
func Bytes(s string) string {
	it := make([]string, len(s))
	for i := 0; i < len(s); i++ {
		it[i] = strconv.Itoa(int(s[i]))
	}
	return List(it)
}
func MapList[T any](xs []T, f func(T) string) string {
	it := make([]string, len(xs))
	for i, x := range xs {
		it[i] = f(x)
	}
	return List(it)
}

// ---------------------------------------------------------------- output

type Hit struct {
	Suite     string `json:"suite"`
	Index     int    `json:"index"`
	Signature string `json:"signature"` // classifier output, matched against known_findings.json
	Demanded  string `json:"demanded"`
	Observed  string `json:"observed"`
	Case      any    `json:"case"`
	Size      int    `json:"size"`
	// Static marks a hit that comes from static facts about the source (no
	// execution exhibited it): it matches known findings, but an unknown one is
	// reported as "no-failing-input-found" with the facts in the replay file.
	Static bool `json:"static,omitempty"`
}

type suiteOut struct {
	name     string
	coq      []string
	jsonl    *bufio.Writer
	jsonlF   *os.File
	n        int
	header   string
	caseType string
	runFn    string
}

type Out struct {
	Prop      string
	Seed      uint64
	Tier      string // quick | thorough | search
	Dir       string
	Replay    string
	ShardSize int
	Rng       *Rng

	suites      map[string]*suiteOut
	order       []string
	seen        map[string]bool
	evaluations int
	nontrivial  int
	dist        map[string]int
	samples     []any
	hits        []Hit
	monChecked  int
	rule        string
	notes       []string
	exhaustive  bool
}

func NewOut(prop string) *Out {
	seedDef := uint64(1)
	if s := os.Getenv("VERIF_SEED"); s != "" {
		if v, err := strconv.ParseUint(s, 10, 64); err == nil {
			seedDef = v
		}
	}
	tierDef := os.Getenv("VERIF_TIER")
	if tierDef == "" {
		tierDef = "quick"
	}
	seed := flag.Uint64("seed", seedDef, "PRNG seed")
	tier := flag.String("tier", tierDef, "quick|thorough|search")
	dir := flag.String("out", ".", "output directory")
	replay := flag.String("replay", "", "replay file")
	flag.Parse()
	if err := os.MkdirAll(*dir, 0o755); err != nil {
		panic(err)
	}
	return &Out{
		Prop: prop, Seed: *seed, Tier: *tier, Dir: *dir, Replay: *replay,
		ShardSize: 250, Rng: NewRng(*seed),
		suites: map[string]*suiteOut{}, seen: map[string]bool{}, dist: map[string]int{},
	}
}

func (o *Out) Rule(s string)      { o.rule = s }
func (o *Out) Note(s string)      { o.notes = append(o.notes, s) }
func (o *Out) Exhaustive(b bool)  { o.exhaustive = b }
func (o *Out) Count(key string)   { o.dist[key]++ }
func (o *Out) CountN(k string, n int) { o.dist[k] += n }
func (o *Out) Thorough() bool     { return o.Tier == "thorough" }
func (o *Out) Search() bool       { return o.Tier == "search" }

// Scale returns q for quick, t for thorough, s for search.
func (o *Out) Scale(q, t, s int) int {
	switch o.Tier {
	case "thorough":
		return t
	case "search":
		return s
	}
	return q
}

// DeclareSuite registers a correspondence suite: the Coq header needed to
// evaluate it (Require lines), the case type and the comparison function.
func (o *Out) DeclareSuite(name, requires, caseType, runFn string) {
	f, err := os.Create(filepath.Join(o.Dir, name+".jsonl"))
	if err != nil {
		panic(err)
	}
	o.suites[name] = &suiteOut{name: name, jsonlF: f, jsonl: bufio.NewWriterSize(f, 1<<20),
		header: requires, caseType: caseType, runFn: runFn}
	o.order = append(o.order, name)
}

// Case records one executed case. coq = the case as a Coq term (inputs and the
// implementation's observables); js = the same for humans / replay.
// Returns the index of the case within its suite.
func (o *Out) Case(suite, coq string, js any, nontrivial bool) int {
	s := o.suites[suite]
	if s == nil {
		panic("undeclared suite " + suite)
	}
	idx := s.n
	s.n++
	o.evaluations++
	h := sha256.Sum256([]byte(suite + "\x00" + coq))
	k := hex.EncodeToString(h[:12])
	if !o.seen[k] {
		o.seen[k] = true
		if nontrivial {
			o.nontrivial++
		}
	}
	if !o.Search() {
		s.coq = append(s.coq, "("+N(uint64(idx))+", "+coq+")")
		b, err := json.Marshal(map[string]any{"suite": suite, "index": idx, "case": js})
		if err != nil {
			panic(err)
		}
		s.jsonl.Write(b)
		s.jsonl.WriteByte('\n')
	}
	if len(o.samples) < 3 && nontrivial {
		o.samples = append(o.samples, map[string]any{"suite": suite, "index": idx, "case": js})
	}
	return idx
}

// Case0 records an executed case that has no Coq-side counterpart (e.g. a
// stress scenario): it counts for evaluations / samples only.
func (o *Out) Case0(js any, nontrivial bool) {
	o.evaluations++
	b, _ := json.Marshal(js)
	h := sha256.Sum256(b)
	k := hex.EncodeToString(h[:12])
	if !o.seen[k] {
		o.seen[k] = true
		if nontrivial {
			o.nontrivial++
		}
	}
	if len(o.samples) < 3 && nontrivial {
		o.samples = append(o.samples, js)
	}
}

func (o *Out) MonitorChecked(n int) { o.monChecked += n }
func (o *Out) Hit(h Hit) {
	b, _ := json.Marshal(h.Case)
	h.Size = len(b)
	o.hits = append(o.hits, h)
}

func (o *Out) Finish() {
	shards := map[string][]string{}
	for _, name := range o.order {
		s := o.suites[name]
		s.jsonl.Flush()
		s.jsonlF.Close()
		size := o.ShardSize
		if n := (len(s.coq) + 31) / 32; n > size { // at most 32 shards per suite
			size = n
		}
		for i, k := 0, 0; i < len(s.coq); i, k = i+size, k+1 {
			j := i + size
			if j > len(s.coq) {
				j = len(s.coq)
			}
			fn := fmt.Sprintf("%s_%03d.v", name, k)
			var sb strings.Builder
			sb.WriteString("From Coq Require Import List ZArith NArith Bool.\n")
			sb.WriteString("From Verif Require Import Lib.Corr.\n")
			sb.WriteString(s.header + "\n")
			sb.WriteString("Import ListNotations.\nOpen Scope Z_scope.\n")
			sb.WriteString("Definition cases : list (N * " + s.caseType + ") := [\n")
			sb.WriteString(strings.Join(s.coq[i:j], ";\n"))
			sb.WriteString("\n].\n")
			sb.WriteString("Definition M := Eval vm_compute in mismatches " + s.runFn + " cases.\n")
			sb.WriteString("Definition Bad := Eval vm_compute in map fst M.\n")
			sb.WriteString("Print Bad.\nPrint M.\n")
			if err := os.WriteFile(filepath.Join(o.Dir, fn), []byte(sb.String()), 0o644); err != nil {
				panic(err)
			}
			shards[name] = append(shards[name], fn)
		}
	}
	// keep the smallest hit per signature first
	sort.SliceStable(o.hits, func(i, j int) bool {
		if o.hits[i].Signature != o.hits[j].Signature {
			return o.hits[i].Signature < o.hits[j].Signature
		}
		return o.hits[i].Size < o.hits[j].Size
	})
	hitCount := map[string]int{}
	kept := []Hit{}
	for _, h := range o.hits {
		hitCount[h.Signature]++
		if hitCount[h.Signature] <= 3 {
			kept = append(kept, h)
		}
	}
	suiteCounts := map[string]int{}
	for _, name := range o.order {
		suiteCounts[name] = o.suites[name].n
	}
	sum := map[string]any{
		"property": o.Prop, "seed": o.Seed, "tier": o.Tier,
		"evaluations": o.evaluations, "distinct_nontrivial": o.nontrivial,
		"rule": o.rule, "samples": o.samples, "distribution": o.dist,
		"suites": suiteCounts, "shards": shards, "notes": o.notes,
		"exhaustive": o.exhaustive,
		"monitor": map[string]any{"checked": o.monChecked, "hit_counts": hitCount, "hits": kept},
	}
	b, _ := json.MarshalIndent(sum, "", " ")
	if err := os.WriteFile(filepath.Join(o.Dir, "summary.json"), b, 0o644); err != nil {
		panic(err)
	}
}

// ReplayCase loads the "case" object of a replay file (written by ./check) into v
// and returns the suite it belongs to. ok=false when no replay was requested.
func (o *Out) ReplayCase(v any) (suite string, ok bool) {
	if o.Replay == "" {
		return "", false
	}
	raw, err := os.ReadFile(o.Replay)
	if err != nil {
		panic(err)
	}
	var r struct {
		Suite string          `json:"suite"`
		Case  json.RawMessage `json:"case"`
	}
	if err := json.Unmarshal(raw, &r); err != nil {
		panic(err)
	}
	if err := json.Unmarshal(r.Case, v); err != nil {
		panic(err)
	}
	return r.Suite, true
}
