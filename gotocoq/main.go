// gotocoq — translates selected Go functions of the tree under verification into
// Gallina definitions (theories/Cxx/Gen.v), regenerated from the current source
// on every check run.  The hand-written lemmas theories/Cxx/GenEquiv.v prove the
// generated definitions equal to the hand-written model theories/Cxx/Model.v, so
// that an edit of the translated code (an operator, the order of two effects,
// what is stored on an error path) stops those proofs from compiling.
//
// The translator is deliberately small: it reads the source with go/parser,
// types the subset it supports itself (every expression it translates has a
// known Go type, otherwise it stops), and exits non-zero with file:line on
// anything outside the subset.  It never guesses.
//
//	gotocoq -repo <tree> -config gotocoq/Cxx.json -out theories/Cxx/Gen.v
package main

import (
	"bytes"
	"crypto/sha256"
	"flag"
	"fmt"
	"go/ast"
	"go/parser"
	"go/token"
	"io"
	"os"
	"path/filepath"
	"sort"
	"strings"
)

func bytesReader(b []byte) io.Reader { return bytes.NewReader(b) }

type unsupported struct {
	pos token.Pos
	msg string
}

type fieldInfo struct{ name, typ string }

type structInfo struct {
	name   string
	spec   *ast.TypeSpec
	fields []fieldInfo
	cfg    *StructCfg
	kept   []fieldInfo
	extern bool // declared in another package: fields from the configuration
}

type globalInfo struct {
	name string
	expr ast.Expr
	typ  ast.Expr
	pos  token.Pos
	end  token.Pos
	done bool
	coqT string
	goT  string
	text string
}

type funcInfo struct {
	cfg        FuncCfg
	decl       *ast.FuncDecl
	coq        string
	done, busy bool
	stateful   bool // returns an updated receiver
	panics     bool // returns an outcome
	emits      bool // returns the list of emitted events last
	nclock     int
	oracles    []string
	recvName   string
	recvStruct string
	params     []fieldInfo
	results    []string
	text       string
	locks      []string
	spawns     bool   // returns the list of goroutines it started last
	spawnT     string // Coq type of the elements of that list
	dispatch   *DispatchCfg
	synth      bool // body of a go statement: parameters are the captured variables
	spawnedBy  string
	captured   []string
}

type T struct {
	cfg        *Config
	repo       string
	fset       *token.FileSet
	files      []*ast.File
	src        map[string][]byte
	imports    map[string]bool // names under which packages are imported in the files read
	structs    map[string]*structInfo
	enums      map[string][]string
	enumOf     map[string]string
	enumPos    map[string]ast.Node
	globals    map[string]*globalInfo
	funcs      map[string]*funcInfo
	out        []string // generated items in dependency order
	usedIntr   map[string]bool
	reserved   map[string]bool
	skipped    map[int]bool
	named      map[string]string       // named non-struct types of the files read -> their underlying Go type
	spawned    map[token.Pos]*funcInfo // go statements -> the definition of their body
	spawnOrder []*funcInfo
}

func (t *T) fail(pos token.Pos, format string, a ...interface{}) {
	panic(unsupported{pos, fmt.Sprintf(format, a...)})
}

func main() {
	repo := flag.String("repo", os.Getenv("VERIF_REPO"), "tree to read")
	cfgPath := flag.String("config", "", "configuration (JSON)")
	outPath := flag.String("out", "", "generated Coq file")
	flag.Parse()
	if *repo == "" {
		*repo = "/repo"
	}
	if *cfgPath == "" || *outPath == "" {
		fmt.Fprintln(os.Stderr, "usage: gotocoq -repo <tree> -config <json> -out <Gen.v>")
		os.Exit(2)
	}
	cfg, err := loadConfig(*cfgPath)
	if err != nil {
		fmt.Fprintln(os.Stderr, "gotocoq:", err)
		os.Remove(*outPath)
		os.Exit(2)
	}
	applyOptions(cfg)
	t := &T{cfg: cfg, repo: *repo, fset: token.NewFileSet(), src: map[string][]byte{}, imports: map[string]bool{},
		structs: map[string]*structInfo{}, enums: map[string][]string{}, enumOf: map[string]string{}, enumPos: map[string]ast.Node{},
		globals: map[string]*globalInfo{}, funcs: map[string]*funcInfo{}, usedIntr: map[string]bool{}, reserved: map[string]bool{}, skipped: map[int]bool{}, spawned: map[token.Pos]*funcInfo{}, named: map[string]string{}}
	text, ferr := t.run()
	if ferr != "" {
		// no stale output: the equivalence proofs must not be checked against old
		// definitions.  The file written instead does not compile (it refers to an
		// unbound name), so neither does anything that requires it.
		stub := "(* gotocoq FAILED on the current source — the definitions were NOT regenerated:\n   " +
			strings.ReplaceAll(ferr, "*)", "* )") + "\n   This file does not compile on purpose. *)\n" +
			"Definition gotocoq_translation_failed : True := gotocoq_could_not_translate_the_current_source.\n"
		if err := os.WriteFile(*outPath, []byte(stub), 0o644); err != nil {
			os.Remove(*outPath)
		}
		fmt.Fprintln(os.Stderr, "gotocoq: "+ferr)
		os.Exit(1)
	}
	// an unchanged definition keeps its file (and time stamp), so that make does
	// not re-check the equivalence proofs when the source did not change
	if old, err := os.ReadFile(*outPath); err == nil && string(old) == text {
		return
	}
	if err := os.WriteFile(*outPath, []byte(text), 0o644); err != nil {
		fmt.Fprintln(os.Stderr, "gotocoq:", err)
		os.Exit(2)
	}
	fmt.Printf("gotocoq: %s: %d definitions from %s\n", *outPath, len(t.out), filepath.Join(*repo, cfg.Dir))
}

// applyOptions: the opt-in switches of the configuration (none of them set = the
// translator behaves exactly as before they existed)
func applyOptions(cfg *Config) {
	if cfg.Types == nil {
		cfg.Types = map[string]string{}
	}
	if cfg.Zero == nil {
		cfg.Zero = map[string]string{}
	}
	if cfg.EqTypes == nil {
		cfg.EqTypes = map[string]string{}
	}
	if cfg.FloatExact {
		intKinds["float64"] = true
	}
	fullFuncTypes = cfg.FuncValues
	for _, tp := range cfg.TypeParams {
		cfg.Types[tp.Name] = tp.Name
		if tp.Eq != "" {
			cfg.EqTypes[tp.Name] = tp.Eq
		}
		if tp.Zero != "" {
			cfg.Zero[tp.Name] = tp.Zero
		}
	}
}

func (t *T) run() (text string, failure string) {
	defer func() {
		if r := recover(); r != nil {
			if u, ok := r.(unsupported); ok {
				p := t.fset.Position(u.pos)
				failure = fmt.Sprintf("%s:%d: unsupported: %s", t.rel(p.Filename), p.Line, u.msg)
				return
			}
			panic(r)
		}
	}()
	if err := t.load(); err != nil {
		return "", err.Error()
	}
	for _, name := range t.cfg.Enums {
		t.emitEnum(name)
	}
	for _, name := range t.structOrder() {
		t.emitStruct(t.structs[name])
	}
	for _, name := range sortedKeys(t.cfg.Sums) {
		t.emitSum(name)
	}
	for _, fc := range t.cfg.Functions {
		fi := t.funcs[fc.Recv+"."+fc.Name]
		t.translateFunc(fi, token.NoPos)
	}
	for i := range t.cfg.Dispatch {
		t.translateFunc(t.dispatcher(&t.cfg.Dispatch[i], token.NoPos), token.NoPos)
	}
	for i, sk := range t.cfg.SkipStmts {
		if !t.skipped[i] {
			return "", fmt.Sprintf("%s: the statement `%s` named in skip_stmts does not occur in the translated functions any more", t.cfg.Dir, sk.Text)
		}
	}
	end := ""
	if len(t.cfg.TypeParams) > 0 {
		end = "\nEnd Gen.\n"
	}
	return t.header() + strings.Join(t.out, "\n") + "\n" + end, ""
}

func (t *T) rel(fn string) string {
	if r, err := filepath.Rel(t.repo, fn); err == nil && !strings.HasPrefix(r, "..") {
		return r
	}
	return fn
}

// ---------------------------------------------------------------- loading

func (t *T) load() error {
	dir := filepath.Join(t.repo, t.cfg.Dir)
	names := t.cfg.Files
	if len(names) == 0 {
		ents, err := os.ReadDir(dir)
		if err != nil {
			return err
		}
		for _, e := range ents {
			n := e.Name()
			if strings.HasSuffix(n, ".go") && !strings.HasSuffix(n, "_test.go") && !strings.HasPrefix(n, "verif_") {
				names = append(names, n)
			}
		}
	}
	sort.Strings(names)
	for _, n := range names {
		p := filepath.Join(dir, n)
		b, err := os.ReadFile(p)
		if err != nil {
			return err
		}
		f, err := parser.ParseFile(t.fset, p, b, parser.ParseComments)
		if err != nil {
			return fmt.Errorf("%s: %v", t.rel(p), err)
		}
		t.src[p] = b
		t.files = append(t.files, f)
		for _, im := range f.Imports {
			path := strings.Trim(im.Path.Value, "\"")
			name := path[strings.LastIndex(path, "/")+1:]
			if im.Name != nil {
				name = im.Name.Name
			}
			t.imports[name] = true
		}
	}
	want := map[string]bool{}
	for _, fc := range t.cfg.Functions {
		want[fc.Recv+"."+fc.Name] = true
	}
	wantG := map[string]bool{}
	for _, g := range t.cfg.Globals {
		wantG[g] = true
	}
	wantE := map[string]bool{}
	for _, e := range t.cfg.Enums {
		wantE[e] = true
	}
	for _, f := range t.files {
		for _, d := range f.Decls {
			switch d := d.(type) {
			case *ast.FuncDecl:
				key := recvBase(d) + "." + d.Name.Name
				if !want[key] {
					continue
				}
				if t.funcs[key] != nil {
					return fmt.Errorf("%s declared twice in the files read (restrict \"files\")", key)
				}
				if d.Body == nil {
					return fmt.Errorf("%s has no body", key)
				}
				t.funcs[key] = &funcInfo{decl: d}
			case *ast.GenDecl:
				for _, s := range d.Specs {
					switch s := s.(type) {
					case *ast.TypeSpec:
						if st, ok := s.Type.(*ast.StructType); ok {
							si := &structInfo{name: s.Name.Name, spec: s}
							for _, fl := range st.Fields.List {
								if len(fl.Names) == 0 {
									si.fields = append(si.fields, fieldInfo{"", typeStr(fl.Type)}) // embedded: never kept
								}
								for _, n := range fl.Names {
									si.fields = append(si.fields, fieldInfo{n.Name, typeStr(fl.Type)})
								}
							}
							t.structs[si.name] = si
						} else if s.TypeParams == nil && !s.Assign.IsValid() {
							if u := typeStr(s.Type); u != "?" {
								t.named[s.Name.Name] = u // type PriorityQueue []*Request
							}
						}
					case *ast.ValueSpec:
						for i, n := range s.Names {
							if wantG[n.Name] {
								if len(s.Values) != len(s.Names) {
									return fmt.Errorf("global %s: no initialiser of its own", n.Name)
								}
								t.globals[n.Name] = &globalInfo{name: n.Name, expr: s.Values[i], typ: s.Type, pos: s.Pos(), end: s.End()}
							}
						}
					}
				}
				if d.Tok == token.CONST {
					t.scanEnum(d, wantE)
				}
			}
		}
	}
	for i, fc := range t.cfg.Functions {
		fi := t.funcs[fc.Recv+"."+fc.Name]
		if fi == nil {
			return fmt.Errorf("function %s.%s not found in %s", fc.Recv, fc.Name, t.cfg.Dir)
		}
		fi.cfg = t.cfg.Functions[i]
		fi.coq = fc.Coq
		if fi.coq == "" {
			fi.coq = fc.Name
		}
		if coqKeywords[fi.coq] {
			return fmt.Errorf("function %s.%s: %q cannot be the name of a Coq definition (give \"coq\" in the configuration)", fc.Recv, fc.Name, fi.coq)
		}
		t.reserved[fi.coq] = true
	}
	for _, g := range t.cfg.Globals {
		if t.globals[g] == nil {
			return fmt.Errorf("global %s not found", g)
		}
		t.reserved[g] = true
	}
	for _, e := range t.cfg.Enums {
		if t.enums[e] == nil {
			return fmt.Errorf("enum type %s: no iota constant block found", e)
		}
	}
	for name, sc := range t.cfg.Structs {
		si := t.structs[name]
		if si == nil {
			return fmt.Errorf("struct %s not found in %s", name, t.cfg.Dir)
		}
		c := sc
		si.cfg = &c
		wantF := map[string]bool{}
		for _, f := range sc.Fields {
			wantF[f] = true
		}
		for _, f := range si.fields {
			if wantF[f.name] {
				si.kept = append(si.kept, f)
				delete(wantF, f.name)
			}
		}
		for f := range wantF {
			return fmt.Errorf("struct %s has no field %s", name, f)
		}
		t.reserved[sc.Coq] = true
		t.reserved["mk_"+sc.Coq] = true
	}
	for name, ec := range t.cfg.Externs {
		si := &structInfo{name: name, extern: true}
		for _, f := range ec.Fields {
			si.fields = append(si.fields, fieldInfo{f[0], f[1]})
			si.kept = append(si.kept, fieldInfo{f[0], f[1]})
		}
		for _, ig := range ec.Ignore {
			si.fields = append(si.fields, fieldInfo{ig, "?"})
		}
		si.cfg = &StructCfg{Coq: ec.Coq}
		t.structs[name] = si
		t.reserved[ec.Coq] = true
		t.reserved["mk_"+ec.Coq] = true
	}
	for _, in := range t.cfg.Intrinsics {
		if in.Coq != "" {
			t.reserved[strings.Fields(in.Coq)[0]] = true
		}
	}
	for _, tp := range t.cfg.TypeParams {
		for _, n := range []string{tp.Name, tp.Eq, tp.Zero} {
			if n != "" {
				t.reserved[n] = true
			}
		}
	}
	if err := t.checkInstantiations(); err != nil {
		return err
	}
	// globals are treated as constants: no assignment to them anywhere in the files read
	for _, f := range t.files {
		var bad error
		ast.Inspect(f, func(n ast.Node) bool {
			if as, ok := n.(*ast.AssignStmt); ok && as.Tok != token.DEFINE {
				for _, l := range as.Lhs {
					if id, ok := l.(*ast.Ident); ok && t.globals[id.Name] != nil && id.Obj != nil && id.Obj.Kind == ast.Var {
						if _, isSpec := id.Obj.Decl.(*ast.ValueSpec); isSpec {
							p := t.fset.Position(id.Pos())
							bad = fmt.Errorf("%s:%d: global %s is assigned (it is translated as a constant)", t.rel(p.Filename), p.Line, id.Name)
						}
					}
				}
			}
			return true
		})
		if bad != nil {
			return bad
		}
	}
	return nil
}

// checkInstantiations: type arguments are dropped by typeStr (MemoryCache[K, V] is read
// as MemoryCache, the record being closed over the Section variables K, V).  That is only
// right when every mention of a configured generic struct passes exactly the struct's own
// type-parameter names, in order, and those names are configured type parameters.
func (t *T) checkInstantiations() error {
	if len(t.cfg.TypeParams) == 0 {
		return nil // as before the option existed: type arguments are ignored
	}
	tpNames := map[string]bool{}
	for _, tp := range t.cfg.TypeParams {
		tpNames[tp.Name] = true
	}
	params := map[string][]string{}
	for name, si := range t.structs {
		if si.cfg == nil || si.extern || si.spec.TypeParams == nil {
			continue
		}
		for _, fl := range si.spec.TypeParams.List {
			for _, n := range fl.Names {
				if !tpNames[n.Name] {
					p := t.fset.Position(n.Pos())
					return fmt.Errorf("%s:%d: unsupported: type parameter %s of %s is not a configured type parameter (type_params)", t.rel(p.Filename), p.Line, n.Name, name)
				}
				params[name] = append(params[name], n.Name)
			}
		}
	}
	var bad error
	check := func(root ast.Node) {
		ast.Inspect(root, func(n ast.Node) bool {
			var x ast.Expr
			var args []ast.Expr
			switch n := n.(type) {
			case *ast.IndexExpr:
				x, args = n.X, []ast.Expr{n.Index}
			case *ast.IndexListExpr:
				x, args = n.X, n.Indices
			default:
				return true
			}
			id, ok := x.(*ast.Ident)
			if !ok {
				return true
			}
			si := t.structs[id.Name]
			if si == nil || si.cfg == nil || si.extern || (id.Obj != nil && id.Obj.Kind != ast.Typ) {
				return true
			}
			want := params[id.Name]
			okArgs := len(args) == len(want)
			for i := 0; okArgs && i < len(args); i++ {
				a, isId := args[i].(*ast.Ident)
				okArgs = isId && a.Name == want[i]
			}
			if !okArgs && bad == nil {
				p := t.fset.Position(n.Pos())
				bad = fmt.Errorf("%s:%d: unsupported: instantiation of %s with anything but its own type parameters [%s]", t.rel(p.Filename), p.Line, id.Name, strings.Join(want, ", "))
			}
			return true
		})
	}
	for _, si := range t.structs {
		if si.cfg != nil && !si.extern {
			check(si.spec)
		}
	}
	for _, fi := range t.funcs {
		check(fi.decl)
	}
	return bad
}

func recvBase(d *ast.FuncDecl) string {
	if d.Recv == nil || len(d.Recv.List) == 0 {
		return ""
	}
	return strings.TrimPrefix(typeStr(d.Recv.List[0].Type), "*")
}

// const ( A T = iota; B; C ) blocks of the wanted enum types
func (t *T) scanEnum(d *ast.GenDecl, want map[string]bool) {
	cur := ""
	var names []string
	flush := func() {
		if cur != "" {
			t.enums[cur] = names
			for _, n := range names {
				t.enumOf[n] = cur
			}
		}
		cur, names = "", nil
	}
	for i, s := range d.Specs {
		vs := s.(*ast.ValueSpec)
		if vs.Type != nil {
			flush()
			ty := typeStr(vs.Type)
			if want[ty] {
				id, ok := vs.Values[0].(*ast.Ident)
				if len(vs.Values) != 1 || !ok || id.Name != "iota" || i != 0 {
					t.fail(vs.Pos(), "enum %s: only `Name %s = iota` opening a const block is supported", ty, ty)
				}
				cur = ty
				t.enumPos[ty] = d
				names = append(names, vs.Names[0].Name)
			}
			continue
		}
		if cur != "" {
			if len(vs.Values) != 0 || len(vs.Names) != 1 {
				flush()
				continue
			}
			names = append(names, vs.Names[0].Name)
		}
	}
	flush()
}

// ---------------------------------------------------------------- types

func typeStr(e ast.Expr) string {
	switch e := e.(type) {
	case *ast.Ident:
		if e.Name == "any" {
			return "interface{}"
		}
		return e.Name
	case *ast.StarExpr:
		return "*" + typeStr(e.X)
	case *ast.SelectorExpr:
		return typeStr(e.X) + "." + e.Sel.Name
	case *ast.ArrayType:
		if e.Len == nil {
			return "[]" + typeStr(e.Elt)
		}
	case *ast.MapType:
		return "map[" + typeStr(e.Key) + "]" + typeStr(e.Value)
	case *ast.InterfaceType:
		if e.Methods == nil || len(e.Methods.List) == 0 {
			return "interface{}"
		}
	case *ast.IndexExpr:
		return typeStr(e.X)
	case *ast.IndexListExpr:
		return typeStr(e.X)
	case *ast.ParenExpr:
		return typeStr(e.X)
	case *ast.FuncType:
		if !fullFuncTypes {
			return "func"
		}
		var ps []string
		if e.Params != nil {
			for _, p := range e.Params.List {
				n := len(p.Names)
				if n == 0 {
					n = 1
				}
				for i := 0; i < n; i++ {
					ps = append(ps, typeStr(p.Type))
				}
			}
		}
		res := ""
		if e.Results != nil {
			var rs []string
			for _, r := range e.Results.List {
				n := len(r.Names)
				if n == 0 {
					n = 1
				}
				for i := 0; i < n; i++ {
					rs = append(rs, typeStr(r.Type))
				}
			}
			res = strings.Join(rs, ",")
			if len(rs) > 1 {
				res = "(" + res + ")"
			}
		}
		return "func(" + strings.Join(ps, ",") + ")" + res
	case *ast.Ellipsis:
		return "..." + typeStr(e.Elt)
	}
	return "?"
}

// fullFuncTypes (configuration "func_values"): function types keep their signature
// ("func(K,V)float64"); otherwise every function type is the opaque "func"
var fullFuncTypes = false

// funcSig splits "func(A,B)R" into its parameter types and its single result type
// ("" = none); ok is false for anything else (several results, nested function types)
func funcSig(ty string) (params []string, res string, ok bool) {
	if !strings.HasPrefix(ty, "func(") {
		return nil, "", false
	}
	i := strings.Index(ty, ")")
	if i < 0 || strings.Contains(ty[5:i], "(") || strings.Contains(ty[i+1:], "(") || strings.Contains(ty[i+1:], "func") {
		return nil, "", false
	}
	if in := ty[5:i]; in != "" {
		params = strings.Split(in, ",")
	}
	return params, ty[i+1:], true
}

var intKinds = map[string]bool{"int": true, "int8": true, "int16": true, "int32": true, "int64": true,
	"uint": true, "uint8": true, "uint16": true, "uint32": true, "uint64": true, "uintptr": true,
	"time.Duration": true, "untyped int": true}

func isZ(t string) bool { return intKinds[t] }

// under: the underlying Go type of a named non-struct type declared in the files read
func (t *T) under(goT string) string {
	if u, ok := t.named[goT]; ok {
		return u
	}
	return goT
}

func (t *T) structOf(goT string) *structInfo {
	return t.structs[strings.TrimPrefix(goT, "*")]
}

func (t *T) coqType(pos token.Pos, goT string) string {
	if c, ok := t.cfg.Types[goT]; ok {
		return c
	}
	switch {
	case isZ(goT) || goT == "time.Time":
		return "Z"
	case goT == "bool":
		return "bool"
	case goT == "string":
		return "gostring"
	case goT == "error":
		return "goerror"
	case t.enums[goT] != nil:
		return goT
	case strings.HasPrefix(goT, "[]"):
		return "list " + paren(t.coqType(pos, goT[2:]))
	case strings.HasPrefix(goT, "map[string]"):
		return "smap " + paren(t.coqType(pos, goT[len("map[string]"):]))
	}
	if si := t.structOf(goT); si != nil && si.cfg != nil {
		return si.cfg.Coq
	}
	if sc, ok := t.cfg.Sums[goT]; ok {
		return sc.Coq
	}
	if kt, vt, ok := mapTypes(goT); ok {
		// a map with another key type: association list, the key equality is passed to
		// every operation (eq of the configuration)
		return "list (" + t.coqType(pos, kt) + " * " + t.coqType(pos, vt) + ")"
	}
	if ps, res, ok := funcSig(goT); ok && fullFuncTypes && res != "" {
		parts := []string{}
		for _, p := range ps {
			parts = append(parts, paren(t.coqType(pos, p)))
		}
		parts = append(parts, paren(t.coqType(pos, res)))
		return "option (" + strings.Join(parts, " -> ") + ")"
	}
	t.fail(pos, "Go type %s has no Coq counterpart (type map of the configuration)", goT)
	return ""
}

func paren(s string) string {
	if !strings.ContainsAny(s, " ") {
		return s
	}
	// already one parenthesised / bracketed group?
	if (s[0] == '(' || s[0] == '[') && closes(s) {
		return s
	}
	return "(" + s + ")"
}

// closes: does the bracket opening s close at its very end?
func closes(s string) bool {
	depth := 0
	for i, c := range s {
		switch c {
		case '(', '[':
			depth++
		case ')', ']':
			depth--
			if depth == 0 {
				return i == len(s)-1
			}
		}
	}
	return false
}

func (t *T) zero(pos token.Pos, goT string) string {
	if z, ok := t.cfg.Zero[goT]; ok {
		return z
	}
	switch {
	case isZ(goT):
		return "0"
	case goT == "bool":
		return "false"
	case goT == "string", strings.HasPrefix(goT, "[]"), strings.HasPrefix(goT, "map["):
		return "[]"
	case goT == "error":
		return "ErrNil"
	case t.enums[goT] != nil:
		return t.enums[goT][0]
	case fullFuncTypes && strings.HasPrefix(goT, "func("):
		return "None"
	}
	if sc, ok := t.cfg.Sums[goT]; ok {
		return sc.Coq + "_nil"
	}
	if si := t.structOf(goT); si != nil && si.cfg != nil && !strings.HasPrefix(goT, "*") {
		parts := []string{"mk_" + si.cfg.Coq}
		for _, f := range si.kept {
			parts = append(parts, paren(t.zero(pos, f.typ)))
		}
		return strings.Join(parts, " ")
	}
	t.fail(pos, "no zero value known for Go type %s", goT)
	return ""
}

func (t *T) eqb(pos token.Pos, goT string) string {
	if e, ok := t.cfg.EqTypes[goT]; ok {
		return e
	}
	switch {
	case isZ(goT) || goT == "time.Time":
		return "Z.eqb"
	case goT == "bool":
		return "Bool.eqb"
	case goT == "string":
		return "gostring_eqb"
	case t.enums[goT] != nil:
		return goT + "_eqb"
	}
	t.fail(pos, "== on Go type %s is not supported", goT)
	return ""
}

// conv adapts a term of Go type `from` to a place of Go type `to`.
func (t *T) conv(pos token.Pos, term, from, to string) string {
	if from == to || (from == "untyped int" && isZ(to)) {
		return term
	}
	if from == "untyped nil" {
		switch {
		case to == "error":
			return "ErrNil"
		case strings.HasPrefix(to, "[]"), strings.HasPrefix(to, "map["):
			return "[]"
		case fullFuncTypes && strings.HasPrefix(to, "func("):
			return "None"
		}
		if z, ok := t.cfg.Zero[to]; ok {
			return z
		}
	}
	if sc, ok := t.cfg.Sums[to]; ok {
		if from == "untyped nil" {
			return sc.Coq + "_nil"
		}
		if strings.HasPrefix(from, "*") {
			for _, v := range sc.Variants {
				if v == from[1:] {
					return sc.Coq + "_" + v + " " + paren(term)
				}
			}
		}
	}
	if b, ok := t.cfg.Types["box:"+from+"->"+to]; ok { // concrete value stored into an interface
		return b + " " + paren(term)
	}
	t.fail(pos, "a value of Go type %s is used where %s is expected", from, to)
	return ""
}

// ---------------------------------------------------------------- records, enums, globals

func (t *T) structOrder() []string {
	var names []string
	for n := range t.cfg.Structs {
		names = append(names, n)
	}
	for n := range t.cfg.Externs {
		names = append(names, n)
	}
	sort.Strings(names)
	// a record mentioned in a field of another one comes first
	var out []string
	seen := map[string]bool{}
	var visit func(n string)
	visit = func(n string) {
		if seen[n] {
			return
		}
		seen[n] = true
		for _, f := range t.structs[n].kept {
			b := strings.TrimPrefix(strings.TrimPrefix(f.typ, "[]"), "*")
			if i := strings.LastIndex(b, "]"); strings.HasPrefix(b, "map[") && i > 0 {
				b = strings.TrimPrefix(b[i+1:], "*")
			}
			if si := t.structs[b]; si != nil && si.cfg != nil {
				visit(b)
			}
			// a named type the configuration maps to a Coq type that mentions a record
			if c, ok := t.cfg.Types[f.typ]; ok {
				for _, other := range names {
					if o := t.structs[other]; o != nil && o.cfg != nil && other != n && containsWord(c, o.cfg.Coq) {
						visit(other)
					}
				}
			}
		}
		out = append(out, n)
	}
	for _, n := range names {
		visit(n)
	}
	return out
}

func containsWord(s, w string) bool {
	for _, f := range strings.FieldsFunc(s, func(r rune) bool {
		return !(r == '_' || r == '\'' || (r >= '0' && r <= '9') || (r >= 'a' && r <= 'z') || (r >= 'A' && r <= 'Z'))
	}) {
		if f == w {
			return true
		}
	}
	return false
}

func (t *T) srcInfo(from, to token.Pos) string {
	p, q := t.fset.Position(from), t.fset.Position(to)
	b := t.src[p.Filename][p.Offset:q.Offset]
	return fmt.Sprintf("source: %s:%d-%d\n   sha256: %x", t.rel(p.Filename), p.Line, q.Line, sha256.Sum256(b))
}

func (t *T) emitStruct(si *structInfo) {
	c := si.cfg.Coq
	var b strings.Builder
	var left []string
	keptSet := map[string]bool{}
	for _, f := range si.kept {
		keptSet[f.name] = true
	}
	for _, f := range si.fields {
		if !keptSet[f.name] {
			left = append(left, f.name+" "+f.typ)
		}
	}
	pos := token.NoPos
	if si.extern {
		fmt.Fprintf(&b, "(* type %s struct — declared in another package: NOT read from the source,\n   the fields and their types are those of the configuration; fields a literal may set and that are dropped: %s *)\n", si.name, orNone(strings.Join(left, ", ")))
	} else {
		pos = si.spec.Pos()
		fmt.Fprintf(&b, "(* type %s struct\n   %s\n   fields left out: %s *)\n", si.name, t.srcInfo(si.spec.Pos(), si.spec.End()), orNone(strings.Join(left, ", ")))
	}
	fmt.Fprintf(&b, "Record %s := mk_%s {\n", c, c)
	for i, f := range si.kept {
		sep := ";"
		if i == len(si.kept)-1 {
			sep = ""
		}
		fmt.Fprintf(&b, "  %s_%s : %s%s\n", c, f.name, t.coqType(pos, f.typ), sep)
	}
	b.WriteString("}.\n")
	for i, f := range si.kept {
		args := make([]string, len(si.kept))
		for j, g := range si.kept {
			if i == j {
				args[j] = "v"
			} else {
				args[j] = fmt.Sprintf("(%s_%s r)", c, g.name)
			}
		}
		fmt.Fprintf(&b, "Definition set_%s_%s (v : %s) (r : %s) : %s :=\n  mk_%s %s.\n", c, f.name,
			t.coqType(pos, f.typ), c, c, c, strings.Join(args, " "))
		t.reserved[c+"_"+f.name] = true
		t.reserved["set_"+c+"_"+f.name] = true
	}
	t.out = append(t.out, b.String())
}

func orNone(s string) string {
	if s == "" {
		return "(none)"
	}
	return s
}

func (t *T) emitEnum(name string) {
	cs := t.enums[name]
	d := t.enumPos[name]
	var b strings.Builder
	fmt.Fprintf(&b, "(* type %s, constants by iota\n   %s *)\n", name, t.srcInfo(d.Pos(), d.End()))
	fmt.Fprintf(&b, "Inductive %s := %s.\n", name, strings.Join(cs, " | "))
	fmt.Fprintf(&b, "Definition %s_eqb (a b : %s) : bool :=\n  match a, b with\n", name, name)
	for _, c := range cs {
		fmt.Fprintf(&b, "  | %s, %s => true\n", c, c)
	}
	if len(cs) > 1 {
		b.WriteString("  | _, _ => false\n")
	}
	b.WriteString("  end.\n")
	t.reserved[name] = true
	t.reserved[name+"_eqb"] = true
	for _, c := range cs {
		t.reserved[c] = true
	}
	t.out = append(t.out, b.String())
}

// emitSum: the Inductive of an interface type with a closed set of dynamic types
func (t *T) emitSum(name string) {
	sc := t.cfg.Sums[name]
	var b strings.Builder
	fmt.Fprintf(&b, "(* interface type %s read as a CLOSED sum (configuration \"sums\"): its dynamic types are\n   %s (held through pointers), or nil.  The assertion to a variant V is %s_as_V x, guarded by %s_is_V x. *)\n",
		name, strings.Join(sc.Variants, ", "), sc.Coq, sc.Coq)
	fmt.Fprintf(&b, "Inductive %s :=\n| %s_nil", sc.Coq, sc.Coq)
	for _, v := range sc.Variants {
		si := t.structs[v]
		if si == nil || si.cfg == nil {
			panic(unsupported{token.NoPos, fmt.Sprintf("sum %s: variant %s is not a configured struct", name, v)})
		}
		fmt.Fprintf(&b, "\n| %s_%s (v : %s)", sc.Coq, v, si.cfg.Coq)
	}
	b.WriteString(".\n")
	for _, v := range sc.Variants {
		si := t.structs[v]
		fmt.Fprintf(&b, "Definition %s_is_%s (x : %s) : bool :=\n  match x with %s_%s _ => true | _ => false end.\n", sc.Coq, v, sc.Coq, sc.Coq, v)
		fmt.Fprintf(&b, "Definition %s_as_%s (x : %s) : %s :=\n  match x with %s_%s v => v | _ => %s end.\n", sc.Coq, v, sc.Coq, si.cfg.Coq, sc.Coq, v, t.zero(token.NoPos, v))
		t.reserved[sc.Coq+"_is_"+v] = true
		t.reserved[sc.Coq+"_as_"+v] = true
		t.reserved[sc.Coq+"_"+v] = true
	}
	t.reserved[sc.Coq] = true
	t.reserved[sc.Coq+"_nil"] = true
	t.out = append(t.out, b.String())
}

// dispatcher: the funcInfo of the generated dynamic dispatch of a method through a sum type
func (t *T) dispatcher(dc *DispatchCfg, from token.Pos) *funcInfo {
	key := "dispatch:" + dc.Sum + "." + dc.Method
	if fi := t.funcs[key]; fi != nil {
		return fi
	}
	if _, ok := t.cfg.Sums[dc.Sum]; !ok {
		t.fail(from, "dispatch: %s is not a configured sum type", dc.Sum)
	}
	fi := &funcInfo{dispatch: dc, coq: dc.Coq, recvStruct: dc.Sum, recvName: "x_"}
	fi.cfg = FuncCfg{Recv: dc.Sum, Name: dc.Method, Coq: dc.Coq}
	t.funcs[key] = fi
	t.reserved[dc.Coq] = true
	return fi
}

func (t *T) findDispatch(sum, method string) *DispatchCfg {
	for i := range t.cfg.Dispatch {
		if t.cfg.Dispatch[i].Sum == sum && t.cfg.Dispatch[i].Method == method {
			return &t.cfg.Dispatch[i]
		}
	}
	return nil
}

// translateDispatcher: match on the dynamic type, call that variant's translated method
func (t *T) translateDispatcher(fi *funcInfo, from token.Pos) {
	dc := fi.dispatch
	sc := t.cfg.Sums[dc.Sum]
	fi.busy = true
	var callees []*funcInfo
	for _, v := range sc.Variants {
		m := t.funcs[v+"."+dc.Method]
		if m == nil {
			t.fail(from, "dispatch of %s.%s: the method of variant %s is not listed in \"functions\"", dc.Sum, dc.Method, v)
		}
		t.translateFunc(m, from)
		if m.stateful || m.emits || m.spawns || m.nclock > 0 || len(m.oracles) > 0 || m.cfg.State != "" {
			t.fail(m.decl.Pos(), "dispatch of %s.%s: the method of %s changes its receiver / reads the clock / emits (only pure methods are dispatched)", dc.Sum, dc.Method, v)
		}
		if len(callees) > 0 {
			a := callees[0]
			same := len(a.params) == len(m.params) && len(a.results) == len(m.results)
			for i := 0; same && i < len(a.params); i++ {
				same = a.params[i].typ == m.params[i].typ
			}
			for i := 0; same && i < len(a.results); i++ {
				same = a.results[i] == m.results[i]
			}
			if !same {
				t.fail(m.decl.Pos(), "dispatch of %s.%s: the methods of %s and %s have different signatures", dc.Sum, dc.Method, sc.Variants[0], v)
			}
		}
		callees = append(callees, m)
		fi.panics = fi.panics || m.panics
	}
	first := callees[0]
	var sig, args []string
	sig = append(sig, fmt.Sprintf("(x_ : %s)", sc.Coq))
	for i, p := range first.params {
		n := fmt.Sprintf("a%d_", i+1)
		fi.params = append(fi.params, fieldInfo{n, p.typ})
		sig = append(sig, fmt.Sprintf("(%s : %s)", n, t.coqType(from, p.typ)))
		args = append(args, n)
	}
	fi.results = first.results
	var rts []string
	for _, r := range fi.results {
		rts = append(rts, paren(t.coqType(from, r)))
	}
	resT := "unit"
	if len(rts) > 0 {
		resT = strings.Join(rts, " * ")
	}
	zero := "tt"
	if len(fi.results) == 1 {
		zero = t.zero(from, fi.results[0])
	} else if len(fi.results) > 1 {
		var zs []string
		for _, r := range fi.results {
			zs = append(zs, t.zero(from, r))
		}
		zero = "(" + strings.Join(zs, ", ") + ")"
	}
	retT := resT
	nilTerm := zero + "   (* never used: every call site is guarded, a method call on nil panics *)"
	if fi.panics {
		retT = "outcome unit " + paren(resT)
		nilTerm = "Panicked tt   (* a method call on the nil interface panics *)"
	}
	var b strings.Builder
	fmt.Fprintf(&b, "(* dynamic dispatch of %s.%s (configuration \"dispatch\"): the method of the value's dynamic type", dc.Sum, dc.Method)
	if fi.panics {
		b.WriteString(";\n   can panic (state of a panic: tt)")
	}
	fmt.Fprintf(&b, " *)\nDefinition %s %s\n  : %s :=\n  match x_ with\n  | %s_nil => %s\n", dc.Coq, strings.Join(sig, " "), retT, sc.Coq, nilTerm)
	for i, v := range sc.Variants {
		m := callees[i]
		call := strings.TrimSpace(m.coq + " v_ " + strings.Join(args, " "))
		switch {
		case fi.panics && m.panics:
			call = fmt.Sprintf("match %s with Normal _ r_ => Normal tt r_ | Panicked _ => Panicked tt end", call)
		case fi.panics:
			call = fmt.Sprintf("Normal tt %s", paren(call))
		}
		fmt.Fprintf(&b, "  | %s_%s v_ => %s\n", sc.Coq, v, call)
	}
	b.WriteString("  end.\n")
	fi.text = b.String()
	t.out = append(t.out, fi.text)
	fi.busy, fi.done = false, true
}

func (t *T) useGlobal(g *globalInfo) (string, string) {
	if !g.done {
		g.done = true
		f := &fctx{t: t, fi: &funcInfo{coq: g.name}, clock: map[token.Pos]int{}, oracles: map[string]bool{}}
		term, ty := f.expr(g.expr, newEnv(t))
		if len(f.guards) > 0 || len(f.clock) > 0 {
			t.fail(g.pos, "initialiser of global %s is not a constant expression", g.name)
		}
		if g.typ != nil {
			term = t.conv(g.pos, term, ty, typeStr(g.typ))
			ty = typeStr(g.typ)
		}
		if ty == "untyped int" {
			ty = "int"
		}
		g.goT = ty
		t.out = append(t.out, fmt.Sprintf("(* package-level %s (never assigned in the files read)\n   %s *)\nDefinition %s : %s := %s.\n",
			g.name, t.srcInfo(g.pos, g.end), g.name, t.coqType(g.pos, ty), term))
	}
	return g.name, g.goT
}

// ---------------------------------------------------------------- header

func (t *T) header() string {
	var b strings.Builder
	fmt.Fprintf(&b, "(* GENERATED by /verif/gotocoq from %s — do not edit, not tracked.\n", t.cfg.Dir)
	b.WriteString("   Regenerated from the current source on every `./check " + t.cfg.Module + "` run.\n\n")
	b.WriteString("   Reading: int/int64/uint*/time.Duration = Z (UNBOUNDED: wrap-around is not\n")
	b.WriteString("   modelled), time.Time = Z ns since the epoch, string = list of byte codes,\n")
	b.WriteString("   slices and maps are values, the pointer receiver is threaded through as\n")
	b.WriteString("   state, integer / and % are Go's truncated Z.quot / Z.rem, a run-time panic\n")
	b.WriteString("   is the result [Panicked s].  Each `now…` parameter is one reading of the\n")
	b.WriteString("   clock, in source order.\n\n")
	for _, k := range sortedKeys(t.usedIntr) {
		if t.cfg.Intrinsics[k].Kind == "wait" {
			b.WriteString("   Blocking waits on the clock (intrinsic kind `wait`: the statements x.Sleep(d),\n")
			b.WriteString("   <-x.After(d)) are KEPT: each updates the clock object x of the state through the\n")
			b.WriteString("   function named below and takes one more reading `now…` — the instant the wait\n")
			b.WriteString("   starts; what the wait means for later readings is that function's definition.\n\n")
			break
		}
	}
	if t.cfg.FloatExact {
		b.WriteString("   FLOATS READ AS EXACT INTEGERS (configuration \"float_exact\"): a float64 is a Z;\n")
		b.WriteString("   + - * and the comparisons are those of Z, conversions between float64 and the\n")
		b.WriteString("   integer kinds (incl. the truncation of time.Duration(f)) are the identity.  This is\n")
		b.WriteString("   NOT IEEE-754: rounding, fractions, NaN/Inf are not modelled (/ and % on floats and\n")
		b.WriteString("   float literals with a fraction are refused).\n\n")
	}
	if len(t.cfg.TypeParams) > 0 {
		b.WriteString("   Type parameters are OPAQUE types (configuration \"type_params\"): Section variables,\n")
		b.WriteString("   with a boolean equality where == / a map key needs one and a zero value where one is\n")
		b.WriteString("   needed; the definitions are closed over them at the end of the Section.\n\n")
	}
	if t.cfg.FuncValues {
		b.WriteString("   Function values (configuration \"func_values\"): option (A -> … -> R), nil = None;\n")
		b.WriteString("   a call is a PURE application (what the function does is not looked into), a call\n")
		b.WriteString("   of nil is the result [Panicked s].\n\n")
	}
	if len(t.cfg.Sums) > 0 {
		b.WriteString("   Interface types read as CLOSED SUMS (configuration \"sums\"): the listed struct types\n")
		b.WriteString("   (held through pointers, read as values) or nil; a type assertion to a variant is a\n")
		b.WriteString("   generated projection (single-value form: Panicked when the dynamic type differs), a\n")
		b.WriteString("   method call through the interface is a generated match on the dynamic type\n")
		b.WriteString("   (configuration \"dispatch\"; a call on nil panics).  Sharing of a struct between two\n")
		b.WriteString("   interface values is not modelled.\n\n")
	}
	b.WriteString("   Functions translated:\n")
	for _, fc := range t.cfg.Functions {
		fi := t.funcs[fc.Recv+"."+fc.Name]
		r := fc.Recv
		if r != "" {
			r = "(" + r + ")."
		}
		fmt.Fprintf(&b, "     %s%s -> %s%s\n", r, fc.Name, fi.coq, locksNote(fi.locks))
	}
	if len(t.spawnOrder) > 0 {
		b.WriteString("\n   Goroutines (configuration \"go_statements\"): `go func() { … }()` is a RECORDED result —\n")
		b.WriteString("   the starting function returns, last, the list of goroutines it started (the captured\n")
		b.WriteString("   values); the body is a definition of its own, run by whoever schedules it:\n")
		for _, g := range t.spawnOrder {
			fmt.Fprintf(&b, "     %s -> %s (record %s_args)%s\n", g.spawnedBy, g.coq, g.coq, locksNote(g.locks))
		}
	}
	b.WriteString("\n   Intrinsics used (their meaning is in Lib/GoSem.v or named here; trusted):\n")
	for _, k := range sortedKeys(t.usedIntr) {
		in := t.cfg.Intrinsics[k]
		what := in.Kind
		if in.Coq != "" {
			what += " " + in.Coq
		}
		if in.Note != "" {
			what += " — " + in.Note
		}
		fmt.Fprintf(&b, "     %s : %s\n", k, what)
	}
	if len(t.cfg.SkipStmts) > 0 {
		b.WriteString("\n   Statements dropped on purpose (configuration; matched by their exact source text):\n")
		for i, sk := range t.cfg.SkipStmts {
			if !t.skipped[i] {
				continue
			}
			fmt.Fprintf(&b, "     `%s` — %s\n", sk.Text, sk.Note)
		}
	}
	b.WriteString("*)\nFrom Coq Require Import List ZArith Bool.\nFrom Verif Require Import Lib.GoSem.\n")
	for _, r := range t.cfg.Requires {
		fmt.Fprintf(&b, "From Verif Require Import %s.\n", r)
	}
	b.WriteString("Import ListNotations.\nOpen Scope Z_scope.\n\n")
	if len(t.cfg.TypeParams) > 0 {
		b.WriteString("Section Gen.\n")
		for _, tp := range t.cfg.TypeParams {
			fmt.Fprintf(&b, "Variable %s : Type.\n", tp.Name)
			if tp.Eq != "" {
				fmt.Fprintf(&b, "Variable %s : %s -> %s -> bool.   (* == on %s *)\n", tp.Eq, tp.Name, tp.Name, tp.Name)
			}
			if tp.Zero != "" {
				fmt.Fprintf(&b, "Variable %s : %s.   (* the zero value of %s *)\n", tp.Zero, tp.Name, tp.Name)
			}
		}
		b.WriteString("\n")
	}
	return b.String()
}

func locksNote(l []string) string {
	if len(l) == 0 {
		return ""
	}
	return "   [atomic section: " + strings.Join(l, ", ") + "]"
}
