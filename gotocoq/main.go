// gotocoq — translates selected Go functions of the tree under verification into
// Gallina definitions (theories/Cxx/Gen.v), regenerated from the current source
// on every check run.  The hand-written lemmas theories/Cxx/GenEquiv.v prove the
// generated definitions equal to the hand-written model theories/Cxx/Model.v, so
// that an edit of the translated code (an operator, the order of two effects,
// what is stored on an error path) stops those proofs from compiling.
//
// The translator is deliberately small: it reads the source with go/parser,
// types the subset it supports itself (every expression it translates has a
// known Go type, otherwise it stops), and exits non-zero with file:line on
// anything outside the subset.  It never guesses.
//
//	gotocoq -repo <tree> -config gotocoq/Cxx.json -out theories/Cxx/Gen.v
package main

import (
	"bytes"
	"crypto/sha256"
	"flag"
	"fmt"
	"go/ast"
	"go/parser"
	"go/token"
	"io"
	"os"
	"path/filepath"
	"sort"
	"strings"
)

func bytesReader(b []byte) io.Reader { return bytes.NewReader(b) }

type unsupported struct {
	pos token.Pos
	msg string
}

type fieldInfo struct{ name, typ string }

type structInfo struct {
	name   string
	spec   *ast.TypeSpec
	fields []fieldInfo
	cfg    *StructCfg
	kept   []fieldInfo
	extern bool // declared in another package: fields from the configuration
}

type globalInfo struct {
	name string
	expr ast.Expr
	typ  ast.Expr
	pos  token.Pos
	end  token.Pos
	done bool
	coqT string
	goT  string
	text string
}

type funcInfo struct {
	cfg        FuncCfg
	decl       *ast.FuncDecl
	coq        string
	done, busy bool
	stateful   bool // returns an updated receiver
	panics     bool // returns an outcome
	emits      bool // returns the list of emitted events last
	nclock     int
	oracles    []string
	recvName   string
	recvStruct string
	params     []fieldInfo
	results    []string
	text       string
	locks      []string
}

type T struct {
	cfg      *Config
	repo     string
	fset     *token.FileSet
	files    []*ast.File
	src      map[string][]byte
	imports  map[string]bool // names under which packages are imported in the files read
	structs  map[string]*structInfo
	enums    map[string][]string
	enumOf   map[string]string
	enumPos  map[string]ast.Node
	globals  map[string]*globalInfo
	funcs    map[string]*funcInfo
	out      []string // generated items in dependency order
	usedIntr map[string]bool
	reserved map[string]bool
	skipped  map[int]bool
}

func (t *T) fail(pos token.Pos, format string, a ...interface{}) {
	panic(unsupported{pos, fmt.Sprintf(format, a...)})
}

func main() {
	repo := flag.String("repo", os.Getenv("VERIF_REPO"), "tree to read")
	cfgPath := flag.String("config", "", "configuration (JSON)")
	outPath := flag.String("out", "", "generated Coq file")
	flag.Parse()
	if *repo == "" {
		*repo = "/repo"
	}
	if *cfgPath == "" || *outPath == "" {
		fmt.Fprintln(os.Stderr, "usage: gotocoq -repo <tree> -config <json> -out <Gen.v>")
		os.Exit(2)
	}
	cfg, err := loadConfig(*cfgPath)
	if err != nil {
		fmt.Fprintln(os.Stderr, "gotocoq:", err)
		os.Remove(*outPath)
		os.Exit(2)
	}
	t := &T{cfg: cfg, repo: *repo, fset: token.NewFileSet(), src: map[string][]byte{}, imports: map[string]bool{},
		structs: map[string]*structInfo{}, enums: map[string][]string{}, enumOf: map[string]string{}, enumPos: map[string]ast.Node{},
		globals: map[string]*globalInfo{}, funcs: map[string]*funcInfo{}, usedIntr: map[string]bool{}, reserved: map[string]bool{}, skipped: map[int]bool{}}
	text, ferr := t.run()
	if ferr != "" {
		// no stale output: the equivalence proofs must not be checked against old
		// definitions.  The file written instead does not compile (it refers to an
		// unbound name), so neither does anything that requires it.
		stub := "(* gotocoq FAILED on the current source — the definitions were NOT regenerated:\n   " +
			strings.ReplaceAll(ferr, "*)", "* )") + "\n   This file does not compile on purpose. *)\n" +
			"Definition gotocoq_translation_failed : True := gotocoq_could_not_translate_the_current_source.\n"
		if err := os.WriteFile(*outPath, []byte(stub), 0o644); err != nil {
			os.Remove(*outPath)
		}
		fmt.Fprintln(os.Stderr, "gotocoq: "+ferr)
		os.Exit(1)
	}
	// an unchanged definition keeps its file (and time stamp), so that make does
	// not re-check the equivalence proofs when the source did not change
	if old, err := os.ReadFile(*outPath); err == nil && string(old) == text {
		return
	}
	if err := os.WriteFile(*outPath, []byte(text), 0o644); err != nil {
		fmt.Fprintln(os.Stderr, "gotocoq:", err)
		os.Exit(2)
	}
	fmt.Printf("gotocoq: %s: %d definitions from %s\n", *outPath, len(t.out), filepath.Join(*repo, cfg.Dir))
}

func (t *T) run() (text string, failure string) {
	defer func() {
		if r := recover(); r != nil {
			if u, ok := r.(unsupported); ok {
				p := t.fset.Position(u.pos)
				failure = fmt.Sprintf("%s:%d: unsupported: %s", t.rel(p.Filename), p.Line, u.msg)
				return
			}
			panic(r)
		}
	}()
	if err := t.load(); err != nil {
		return "", err.Error()
	}
	for _, name := range t.cfg.Enums {
		t.emitEnum(name)
	}
	for _, name := range t.structOrder() {
		t.emitStruct(t.structs[name])
	}
	for _, fc := range t.cfg.Functions {
		fi := t.funcs[fc.Recv+"."+fc.Name]
		t.translateFunc(fi, token.NoPos)
	}
	for i, sk := range t.cfg.SkipStmts {
		if !t.skipped[i] {
			return "", fmt.Sprintf("%s: the statement `%s` named in skip_stmts does not occur in the translated functions any more", t.cfg.Dir, sk.Text)
		}
	}
	return t.header() + strings.Join(t.out, "\n") + "\n", ""
}

func (t *T) rel(fn string) string {
	if r, err := filepath.Rel(t.repo, fn); err == nil && !strings.HasPrefix(r, "..") {
		return r
	}
	return fn
}

// ---------------------------------------------------------------- loading

func (t *T) load() error {
	dir := filepath.Join(t.repo, t.cfg.Dir)
	names := t.cfg.Files
	if len(names) == 0 {
		ents, err := os.ReadDir(dir)
		if err != nil {
			return err
		}
		for _, e := range ents {
			n := e.Name()
			if strings.HasSuffix(n, ".go") && !strings.HasSuffix(n, "_test.go") && !strings.HasPrefix(n, "verif_") {
				names = append(names, n)
			}
		}
	}
	sort.Strings(names)
	for _, n := range names {
		p := filepath.Join(dir, n)
		b, err := os.ReadFile(p)
		if err != nil {
			return err
		}
		f, err := parser.ParseFile(t.fset, p, b, parser.ParseComments)
		if err != nil {
			return fmt.Errorf("%s: %v", t.rel(p), err)
		}
		t.src[p] = b
		t.files = append(t.files, f)
		for _, im := range f.Imports {
			path := strings.Trim(im.Path.Value, "\"")
			name := path[strings.LastIndex(path, "/")+1:]
			if im.Name != nil {
				name = im.Name.Name
			}
			t.imports[name] = true
		}
	}
	want := map[string]bool{}
	for _, fc := range t.cfg.Functions {
		want[fc.Recv+"."+fc.Name] = true
	}
	wantG := map[string]bool{}
	for _, g := range t.cfg.Globals {
		wantG[g] = true
	}
	wantE := map[string]bool{}
	for _, e := range t.cfg.Enums {
		wantE[e] = true
	}
	for _, f := range t.files {
		for _, d := range f.Decls {
			switch d := d.(type) {
			case *ast.FuncDecl:
				key := recvBase(d) + "." + d.Name.Name
				if !want[key] {
					continue
				}
				if t.funcs[key] != nil {
					return fmt.Errorf("%s declared twice in the files read (restrict \"files\")", key)
				}
				if d.Body == nil {
					return fmt.Errorf("%s has no body", key)
				}
				t.funcs[key] = &funcInfo{decl: d}
			case *ast.GenDecl:
				for _, s := range d.Specs {
					switch s := s.(type) {
					case *ast.TypeSpec:
						if st, ok := s.Type.(*ast.StructType); ok {
							si := &structInfo{name: s.Name.Name, spec: s}
							for _, fl := range st.Fields.List {
								if len(fl.Names) == 0 {
									si.fields = append(si.fields, fieldInfo{"", typeStr(fl.Type)}) // embedded: never kept
								}
								for _, n := range fl.Names {
									si.fields = append(si.fields, fieldInfo{n.Name, typeStr(fl.Type)})
								}
							}
							t.structs[si.name] = si
						}
					case *ast.ValueSpec:
						for i, n := range s.Names {
							if wantG[n.Name] {
								if len(s.Values) != len(s.Names) {
									return fmt.Errorf("global %s: no initialiser of its own", n.Name)
								}
								t.globals[n.Name] = &globalInfo{name: n.Name, expr: s.Values[i], typ: s.Type, pos: s.Pos(), end: s.End()}
							}
						}
					}
				}
				if d.Tok == token.CONST {
					t.scanEnum(d, wantE)
				}
			}
		}
	}
	for i, fc := range t.cfg.Functions {
		fi := t.funcs[fc.Recv+"."+fc.Name]
		if fi == nil {
			return fmt.Errorf("function %s.%s not found in %s", fc.Recv, fc.Name, t.cfg.Dir)
		}
		fi.cfg = t.cfg.Functions[i]
		fi.coq = fc.Coq
		if fi.coq == "" {
			fi.coq = fc.Name
		}
		if coqKeywords[fi.coq] {
			return fmt.Errorf("function %s.%s: %q cannot be the name of a Coq definition (give \"coq\" in the configuration)", fc.Recv, fc.Name, fi.coq)
		}
		t.reserved[fi.coq] = true
	}
	for _, g := range t.cfg.Globals {
		if t.globals[g] == nil {
			return fmt.Errorf("global %s not found", g)
		}
		t.reserved[g] = true
	}
	for _, e := range t.cfg.Enums {
		if t.enums[e] == nil {
			return fmt.Errorf("enum type %s: no iota constant block found", e)
		}
	}
	for name, sc := range t.cfg.Structs {
		si := t.structs[name]
		if si == nil {
			return fmt.Errorf("struct %s not found in %s", name, t.cfg.Dir)
		}
		c := sc
		si.cfg = &c
		wantF := map[string]bool{}
		for _, f := range sc.Fields {
			wantF[f] = true
		}
		for _, f := range si.fields {
			if wantF[f.name] {
				si.kept = append(si.kept, f)
				delete(wantF, f.name)
			}
		}
		for f := range wantF {
			return fmt.Errorf("struct %s has no field %s", name, f)
		}
		t.reserved[sc.Coq] = true
		t.reserved["mk_"+sc.Coq] = true
	}
	for name, ec := range t.cfg.Externs {
		si := &structInfo{name: name, extern: true}
		for _, f := range ec.Fields {
			si.fields = append(si.fields, fieldInfo{f[0], f[1]})
			si.kept = append(si.kept, fieldInfo{f[0], f[1]})
		}
		for _, ig := range ec.Ignore {
			si.fields = append(si.fields, fieldInfo{ig, "?"})
		}
		si.cfg = &StructCfg{Coq: ec.Coq}
		t.structs[name] = si
		t.reserved[ec.Coq] = true
		t.reserved["mk_"+ec.Coq] = true
	}
	for _, in := range t.cfg.Intrinsics {
		if in.Coq != "" {
			t.reserved[strings.Fields(in.Coq)[0]] = true
		}
	}
	// globals are treated as constants: no assignment to them anywhere in the files read
	for _, f := range t.files {
		var bad error
		ast.Inspect(f, func(n ast.Node) bool {
			if as, ok := n.(*ast.AssignStmt); ok && as.Tok != token.DEFINE {
				for _, l := range as.Lhs {
					if id, ok := l.(*ast.Ident); ok && t.globals[id.Name] != nil && id.Obj != nil && id.Obj.Kind == ast.Var {
						if _, isSpec := id.Obj.Decl.(*ast.ValueSpec); isSpec {
							p := t.fset.Position(id.Pos())
							bad = fmt.Errorf("%s:%d: global %s is assigned (it is translated as a constant)", t.rel(p.Filename), p.Line, id.Name)
						}
					}
				}
			}
			return true
		})
		if bad != nil {
			return bad
		}
	}
	return nil
}

func recvBase(d *ast.FuncDecl) string {
	if d.Recv == nil || len(d.Recv.List) == 0 {
		return ""
	}
	return strings.TrimPrefix(typeStr(d.Recv.List[0].Type), "*")
}

// const ( A T = iota; B; C ) blocks of the wanted enum types
func (t *T) scanEnum(d *ast.GenDecl, want map[string]bool) {
	cur := ""
	var names []string
	flush := func() {
		if cur != "" {
			t.enums[cur] = names
			for _, n := range names {
				t.enumOf[n] = cur
			}
		}
		cur, names = "", nil
	}
	for i, s := range d.Specs {
		vs := s.(*ast.ValueSpec)
		if vs.Type != nil {
			flush()
			ty := typeStr(vs.Type)
			if want[ty] {
				id, ok := vs.Values[0].(*ast.Ident)
				if len(vs.Values) != 1 || !ok || id.Name != "iota" || i != 0 {
					t.fail(vs.Pos(), "enum %s: only `Name %s = iota` opening a const block is supported", ty, ty)
				}
				cur = ty
				t.enumPos[ty] = d
				names = append(names, vs.Names[0].Name)
			}
			continue
		}
		if cur != "" {
			if len(vs.Values) != 0 || len(vs.Names) != 1 {
				flush()
				continue
			}
			names = append(names, vs.Names[0].Name)
		}
	}
	flush()
}

// ---------------------------------------------------------------- types

func typeStr(e ast.Expr) string {
	switch e := e.(type) {
	case *ast.Ident:
		if e.Name == "any" {
			return "interface{}"
		}
		return e.Name
	case *ast.StarExpr:
		return "*" + typeStr(e.X)
	case *ast.SelectorExpr:
		return typeStr(e.X) + "." + e.Sel.Name
	case *ast.ArrayType:
		if e.Len == nil {
			return "[]" + typeStr(e.Elt)
		}
	case *ast.MapType:
		return "map[" + typeStr(e.Key) + "]" + typeStr(e.Value)
	case *ast.InterfaceType:
		if e.Methods == nil || len(e.Methods.List) == 0 {
			return "interface{}"
		}
	case *ast.IndexExpr:
		return typeStr(e.X)
	case *ast.IndexListExpr:
		return typeStr(e.X)
	case *ast.ParenExpr:
		return typeStr(e.X)
	case *ast.FuncType:
		return "func"
	case *ast.Ellipsis:
		return "..." + typeStr(e.Elt)
	}
	return "?"
}

var intKinds = map[string]bool{"int": true, "int8": true, "int16": true, "int32": true, "int64": true,
	"uint": true, "uint8": true, "uint16": true, "uint32": true, "uint64": true, "uintptr": true,
	"time.Duration": true, "untyped int": true}

func isZ(t string) bool { return intKinds[t] }

func (t *T) structOf(goT string) *structInfo {
	return t.structs[strings.TrimPrefix(goT, "*")]
}

func (t *T) coqType(pos token.Pos, goT string) string {
	if c, ok := t.cfg.Types[goT]; ok {
		return c
	}
	switch {
	case isZ(goT) || goT == "time.Time":
		return "Z"
	case goT == "bool":
		return "bool"
	case goT == "string":
		return "gostring"
	case goT == "error":
		return "goerror"
	case t.enums[goT] != nil:
		return goT
	case strings.HasPrefix(goT, "[]"):
		return "list " + paren(t.coqType(pos, goT[2:]))
	case strings.HasPrefix(goT, "map[string]"):
		return "smap " + paren(t.coqType(pos, goT[len("map[string]"):]))
	}
	if si := t.structOf(goT); si != nil && si.cfg != nil {
		return si.cfg.Coq
	}
	t.fail(pos, "Go type %s has no Coq counterpart (type map of the configuration)", goT)
	return ""
}

func paren(s string) string {
	if !strings.ContainsAny(s, " ") {
		return s
	}
	// already one parenthesised / bracketed group?
	if (s[0] == '(' || s[0] == '[') && closes(s) {
		return s
	}
	return "(" + s + ")"
}

// closes: does the bracket opening s close at its very end?
func closes(s string) bool {
	depth := 0
	for i, c := range s {
		switch c {
		case '(', '[':
			depth++
		case ')', ']':
			depth--
			if depth == 0 {
				return i == len(s)-1
			}
		}
	}
	return false
}

func (t *T) zero(pos token.Pos, goT string) string {
	if z, ok := t.cfg.Zero[goT]; ok {
		return z
	}
	switch {
	case isZ(goT):
		return "0"
	case goT == "bool":
		return "false"
	case goT == "string", strings.HasPrefix(goT, "[]"), strings.HasPrefix(goT, "map["):
		return "[]"
	case goT == "error":
		return "ErrNil"
	case t.enums[goT] != nil:
		return t.enums[goT][0]
	}
	if si := t.structOf(goT); si != nil && si.cfg != nil && !strings.HasPrefix(goT, "*") {
		parts := []string{"mk_" + si.cfg.Coq}
		for _, f := range si.kept {
			parts = append(parts, paren(t.zero(pos, f.typ)))
		}
		return strings.Join(parts, " ")
	}
	t.fail(pos, "no zero value known for Go type %s", goT)
	return ""
}

func (t *T) eqb(pos token.Pos, goT string) string {
	if e, ok := t.cfg.EqTypes[goT]; ok {
		return e
	}
	switch {
	case isZ(goT) || goT == "time.Time":
		return "Z.eqb"
	case goT == "bool":
		return "Bool.eqb"
	case goT == "string":
		return "gostring_eqb"
	case t.enums[goT] != nil:
		return goT + "_eqb"
	}
	t.fail(pos, "== on Go type %s is not supported", goT)
	return ""
}

// conv adapts a term of Go type `from` to a place of Go type `to`.
func (t *T) conv(pos token.Pos, term, from, to string) string {
	if from == to || (from == "untyped int" && isZ(to)) {
		return term
	}
	if from == "untyped nil" {
		switch {
		case to == "error":
			return "ErrNil"
		case strings.HasPrefix(to, "[]"), strings.HasPrefix(to, "map["):
			return "[]"
		}
		if z, ok := t.cfg.Zero[to]; ok {
			return z
		}
	}
	if b, ok := t.cfg.Types["box:"+from+"->"+to]; ok { // concrete value stored into an interface
		return b + " " + paren(term)
	}
	t.fail(pos, "a value of Go type %s is used where %s is expected", from, to)
	return ""
}

// ---------------------------------------------------------------- records, enums, globals

func (t *T) structOrder() []string {
	var names []string
	for n := range t.cfg.Structs {
		names = append(names, n)
	}
	for n := range t.cfg.Externs {
		names = append(names, n)
	}
	sort.Strings(names)
	// a record mentioned in a field of another one comes first
	var out []string
	seen := map[string]bool{}
	var visit func(n string)
	visit = func(n string) {
		if seen[n] {
			return
		}
		seen[n] = true
		for _, f := range t.structs[n].kept {
			b := strings.TrimPrefix(strings.TrimPrefix(f.typ, "[]"), "*")
			if i := strings.LastIndex(b, "]"); strings.HasPrefix(b, "map[") && i > 0 {
				b = strings.TrimPrefix(b[i+1:], "*")
			}
			if si := t.structs[b]; si != nil && si.cfg != nil {
				visit(b)
			}
		}
		out = append(out, n)
	}
	for _, n := range names {
		visit(n)
	}
	return out
}

func (t *T) srcInfo(from, to token.Pos) string {
	p, q := t.fset.Position(from), t.fset.Position(to)
	b := t.src[p.Filename][p.Offset:q.Offset]
	return fmt.Sprintf("source: %s:%d-%d\n   sha256: %x", t.rel(p.Filename), p.Line, q.Line, sha256.Sum256(b))
}

func (t *T) emitStruct(si *structInfo) {
	c := si.cfg.Coq
	var b strings.Builder
	var left []string
	keptSet := map[string]bool{}
	for _, f := range si.kept {
		keptSet[f.name] = true
	}
	for _, f := range si.fields {
		if !keptSet[f.name] {
			left = append(left, f.name+" "+f.typ)
		}
	}
	pos := token.NoPos
	if si.extern {
		fmt.Fprintf(&b, "(* type %s struct — declared in another package: NOT read from the source,\n   the fields and their types are those of the configuration; fields a literal may set and that are dropped: %s *)\n", si.name, orNone(strings.Join(left, ", ")))
	} else {
		pos = si.spec.Pos()
		fmt.Fprintf(&b, "(* type %s struct\n   %s\n   fields left out: %s *)\n", si.name, t.srcInfo(si.spec.Pos(), si.spec.End()), orNone(strings.Join(left, ", ")))
	}
	fmt.Fprintf(&b, "Record %s := mk_%s {\n", c, c)
	for i, f := range si.kept {
		sep := ";"
		if i == len(si.kept)-1 {
			sep = ""
		}
		fmt.Fprintf(&b, "  %s_%s : %s%s\n", c, f.name, t.coqType(pos, f.typ), sep)
	}
	b.WriteString("}.\n")
	for i, f := range si.kept {
		args := make([]string, len(si.kept))
		for j, g := range si.kept {
			if i == j {
				args[j] = "v"
			} else {
				args[j] = fmt.Sprintf("(%s_%s r)", c, g.name)
			}
		}
		fmt.Fprintf(&b, "Definition set_%s_%s (v : %s) (r : %s) : %s :=\n  mk_%s %s.\n", c, f.name,
			t.coqType(pos, f.typ), c, c, c, strings.Join(args, " "))
		t.reserved[c+"_"+f.name] = true
		t.reserved["set_"+c+"_"+f.name] = true
	}
	t.out = append(t.out, b.String())
}

func orNone(s string) string {
	if s == "" {
		return "(none)"
	}
	return s
}

func (t *T) emitEnum(name string) {
	cs := t.enums[name]
	d := t.enumPos[name]
	var b strings.Builder
	fmt.Fprintf(&b, "(* type %s, constants by iota\n   %s *)\n", name, t.srcInfo(d.Pos(), d.End()))
	fmt.Fprintf(&b, "Inductive %s := %s.\n", name, strings.Join(cs, " | "))
	fmt.Fprintf(&b, "Definition %s_eqb (a b : %s) : bool :=\n  match a, b with\n", name, name)
	for _, c := range cs {
		fmt.Fprintf(&b, "  | %s, %s => true\n", c, c)
	}
	if len(cs) > 1 {
		b.WriteString("  | _, _ => false\n")
	}
	b.WriteString("  end.\n")
	t.reserved[name] = true
	t.reserved[name+"_eqb"] = true
	for _, c := range cs {
		t.reserved[c] = true
	}
	t.out = append(t.out, b.String())
}

func (t *T) useGlobal(g *globalInfo) (string, string) {
	if !g.done {
		g.done = true
		f := &fctx{t: t, fi: &funcInfo{coq: g.name}, clock: map[token.Pos]int{}, oracles: map[string]bool{}}
		term, ty := f.expr(g.expr, newEnv(t))
		if len(f.guards) > 0 || len(f.clock) > 0 {
			t.fail(g.pos, "initialiser of global %s is not a constant expression", g.name)
		}
		if g.typ != nil {
			term = t.conv(g.pos, term, ty, typeStr(g.typ))
			ty = typeStr(g.typ)
		}
		if ty == "untyped int" {
			ty = "int"
		}
		g.goT = ty
		t.out = append(t.out, fmt.Sprintf("(* package-level %s (never assigned in the files read)\n   %s *)\nDefinition %s : %s := %s.\n",
			g.name, t.srcInfo(g.pos, g.end), g.name, t.coqType(g.pos, ty), term))
	}
	return g.name, g.goT
}

// ---------------------------------------------------------------- header

func (t *T) header() string {
	var b strings.Builder
	fmt.Fprintf(&b, "(* GENERATED by /verif/gotocoq from %s — do not edit, not tracked.\n", t.cfg.Dir)
	b.WriteString("   Regenerated from the current source on every `./check " + t.cfg.Module + "` run.\n\n")
	b.WriteString("   Reading: int/int64/uint*/time.Duration = Z (UNBOUNDED: wrap-around is not\n")
	b.WriteString("   modelled), time.Time = Z ns since the epoch, string = list of byte codes,\n")
	b.WriteString("   slices and maps are values, the pointer receiver is threaded through as\n")
	b.WriteString("   state, integer / and % are Go's truncated Z.quot / Z.rem, a run-time panic\n")
	b.WriteString("   is the result [Panicked s].  Each `now…` parameter is one reading of the\n")
	b.WriteString("   clock, in source order.\n\n")
	for _, k := range sortedKeys(t.usedIntr) {
		if t.cfg.Intrinsics[k].Kind == "wait" {
			b.WriteString("   Blocking waits on the clock (intrinsic kind `wait`: the statements x.Sleep(d),\n")
			b.WriteString("   <-x.After(d)) are KEPT: each updates the clock object x of the state through the\n")
			b.WriteString("   function named below and takes one more reading `now…` — the instant the wait\n")
			b.WriteString("   starts; what the wait means for later readings is that function's definition.\n\n")
			break
		}
	}
	b.WriteString("   Functions translated:\n")
	for _, fc := range t.cfg.Functions {
		fi := t.funcs[fc.Recv+"."+fc.Name]
		r := fc.Recv
		if r != "" {
			r = "(" + r + ")."
		}
		fmt.Fprintf(&b, "     %s%s -> %s%s\n", r, fc.Name, fi.coq, locksNote(fi.locks))
	}
	b.WriteString("\n   Intrinsics used (their meaning is in Lib/GoSem.v or named here; trusted):\n")
	for _, k := range sortedKeys(t.usedIntr) {
		in := t.cfg.Intrinsics[k]
		what := in.Kind
		if in.Coq != "" {
			what += " " + in.Coq
		}
		if in.Note != "" {
			what += " — " + in.Note
		}
		fmt.Fprintf(&b, "     %s : %s\n", k, what)
	}
	if len(t.cfg.SkipStmts) > 0 {
		b.WriteString("\n   Statements dropped on purpose (configuration; matched by their exact source text):\n")
		for i, sk := range t.cfg.SkipStmts {
			if !t.skipped[i] {
				continue
			}
			fmt.Fprintf(&b, "     `%s` — %s\n", sk.Text, sk.Note)
		}
	}
	b.WriteString("*)\nFrom Coq Require Import List ZArith Bool.\nFrom Verif Require Import Lib.GoSem.\n")
	for _, r := range t.cfg.Requires {
		fmt.Fprintf(&b, "From Verif Require Import %s.\n", r)
	}
	b.WriteString("Import ListNotations.\nOpen Scope Z_scope.\n\n")
	return b.String()
}

func locksNote(l []string) string {
	if len(l) == 0 {
		return ""
	}
	return "   [atomic section: " + strings.Join(l, ", ") + "]"
}
