module gotocoq

go 1.22.0
