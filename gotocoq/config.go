package main

import (
	"encoding/json"
	"fmt"
	"os"
	"path/filepath"
	"sort"
)

// StructCfg: a Go struct type that becomes a Coq Record with the listed fields
// only (mutexes, clocks, loggers, function values are left out).
type StructCfg struct {
	Coq    string   `json:"coq"`
	Fields []string `json:"fields"`
	// Ignore: fields left out of the record that a composite literal may still set (a mutex,
	// the clock): the literal's value for them is dropped after it was checked free of effects
	Ignore []string `json:"ignore"`
}

// FuncCfg: one function to translate.
// ExternCfg: a struct type declared in another package (its declaration is not read:
// the field types come from the configuration and are part of the trusted base).
type ExternCfg struct {
	Coq    string      `json:"coq"`
	Fields [][2]string `json:"fields"` // (name, Go type) of the fields kept, in record order
	Ignore []string    `json:"ignore"` // fields a composite literal may set and that are dropped
}

// SkipStmt: a statement dropped on purpose, matched by its exact source text.
type SkipStmt struct {
	Text string `json:"text"`
	Note string `json:"note"`
}

type FuncCfg struct {
	Recv string `json:"recv"` // receiver type name without * and type parameters ("" = plain function)
	Name string `json:"name"`
	Coq  string `json:"coq"` // name of the generated definition (default: Name)
	// State: a parameter that is threaded through as the state instead of the receiver
	// (the function changes what the parameter refers to; the receiver is then read-only)
	State string `json:"state"`
	// LoopBody: the function is `for { … }`; the body of that loop is translated as ONE
	// iteration (a step function); falling off its end = the state after the iteration
	LoopBody bool `json:"loop_body"`
	// UntilSelect: only the statements BEFORE the function's first top-level `select` are
	// translated (the part that runs before the function blocks).  The results become an
	// option: `Some (results)` for a return inside that part, `None` = the select was
	// reached (the function is blocked there; what happens then is not translated).
	UntilSelect bool `json:"until_select"`
}

// Intrinsic: a call the translator does not look into.
//
//	kind fn      pure: `coq recv args…`
//	kind mut     changes the object it is called on (receiver, or first argument `&x`):
//	             `coq obj args…` evaluates to obj' (no results) or (obj', results…);
//	             obj must be an assignable path and is assigned back
//	kind clock   reading of the clock: becomes a parameter `now…` of the function
//	kind wait    blocking wait on a clock object that is kept in the state (its Go type is mapped
//	             to a Coq type by "types"): the statement `x.Sleep(d)` or `<-x.After(d)` becomes
//	             `coq x d nowK`, which evaluates to x' and is assigned back to x; nowK is one more
//	             reading of the clock (a parameter, in source order like every reading): the
//	             instant the wait starts.  What the wait means (e.g. a log of (start, duration)
//	             and "every later reading >= start + max(d,0)") is the configuration's `coq`
//	             function, hand-written in a file named by "requires".  Only as a statement.
//	kind id      returns its receiver unchanged (t.UTC())
//	kind lock    mutex operation: dropped, recorded as atomic-section note
//	kind skip    logging: dropped (arguments must be free of effects)
//	kind oracle  unknown function: a parameter of every definition using it
//	kind errtoken fmt.Errorf / errors.New: the format string as an error token
//	kind sprintf fmt.Sprintf with a literal format of text and %s verbs on strings: concatenation
//	kind input   a call whose result is an input of the function (a callback reading the
//	             environment): a parameter `coq : type`; at most one call site per function
//	kind emit    a call of a callback with outside effects only: the token `coq` is appended
//	             to the list of emitted events, returned as the last result
//	kind const   a constant: `coq`
//	kind field   accessor method returning a part of its receiver: projection `coq`, update `set_coq`
type Intrinsic struct {
	Kind   string   `json:"kind"`
	Coq    string   `json:"coq"`
	Args   []string `json:"args"`   // Go types of the arguments (not the receiver); checked
	Ret    []string `json:"ret"`    // Go types of the results
	Type   string   `json:"type"`   // oracle: Coq type
	On     string   `json:"on"`     // apply to this field of the receiver instead of the receiver
	Clock  int      `json:"clock"`  // fn/mut: number of clock readings it takes as trailing arguments
	NoRecv bool     `json:"norecv"` // the receiver is not passed (call of a function-valued field)
	Note   string   `json:"note"`   // meaning (printed in the header of the generated file)
}

type Config struct {
	Include    []string              `json:"include"`
	Module     string                `json:"module"`  // e.g. C09
	Dir        string                `json:"dir"`     // package directory relative to the tree
	Files      []string              `json:"files"`   // files of the package to read (default: all non-test files)
	Types      map[string]string     `json:"types"`   // extra Go type -> Coq type
	Zero       map[string]string     `json:"zero"`    // Go type -> Coq term of its zero value
	EqTypes    map[string]string     `json:"eq"`      // Go type -> Coq boolean equality
	Structs    map[string]StructCfg  `json:"structs"` // Go struct type -> record
	Enums      []string              `json:"enums"`   // named integer types declared with iota
	Globals    []string              `json:"globals"` // package-level var/const with initialiser, never assigned
	Functions  []FuncCfg             `json:"functions"`
	Intrinsics map[string]*Intrinsic `json:"intrinsics"`
	Externs    map[string]ExternCfg  `json:"externs"`
	SkipStmts  []SkipStmt            `json:"skip_stmts"`
	RefTypes   []string              `json:"ref_types"` // Go types that are references: a local bound to a path of such a type is an alias of the path
	Requires   []string              `json:"requires"`  // further `From Verif Require Import` (earlier generated files)
	// FloatExact (opt-in): float64 values are READ AS EXACT INTEGERS (Z): + - * and the
	// comparisons are those of Z, conversions between float64 and the integer kinds are the
	// identity (so is the truncation of time.Duration(f)), / and % on floats and float
	// literals with a fraction stay refused.  This is NOT IEEE-754 arithmetic; the generated
	// header says so and the props file must list it as trusted.  Without it any operator on
	// a float64 is refused.
	FloatExact bool `json:"float_exact"`
	// TypeParams (opt-in): type parameters of the generic code read as OPAQUE types: the
	// generated definitions live in a Section with one `Variable <name> : Type` each, a
	// decidable equality `Variable <eq> : T -> T -> bool` where "eq" is given (needed for
	// == and for map keys) and a zero value `Variable <zero> : T` where "zero" is given
	// (needed for `var x T`, map look-ups of T).  Every instantiation of a configured
	// generic struct must pass exactly its declared parameter names in order.
	TypeParams []TypeParamCfg `json:"type_params"`
	// FuncValues (opt-in): function-typed fields/locals/parameters are values of
	// `option (A -> B -> R)` (nil = None); calling one is a PURE application (a call of nil
	// is the result Panicked); what the function does is not looked into.
	FuncValues bool `json:"func_values"`
	// GoStatements (opt-in): `go func() { … }()` is translated as a RECORDED result: the
	// body becomes a definition of its own (<Func>_go, parameters = the captured variables,
	// its clock readings are its own), the starting function returns, last, the list of
	// goroutines it started (<Func>_go_args records holding the captured values).
	GoStatements bool              `json:"go_statements"`
	Sums         map[string]SumCfg `json:"sums"`
	Dispatch     []DispatchCfg     `json:"dispatch"`
}

// SumCfg: an interface type whose dynamic types are the listed structs of the package
// (held through pointers): an Inductive with one constructor per variant plus `<coq>_nil`
// (the nil interface value).  x.(*V) is the generated projection (single-value form guarded:
// Panicked when the dynamic type differs); a *V used where the interface is expected is the
// injection.  Method calls on such a value need a "dispatch" entry.
type SumCfg struct {
	Coq      string   `json:"coq"`
	Variants []string `json:"variants"`
}

// DispatchCfg: dynamic dispatch of a method through a sum type: a generated definition
// that matches on the dynamic type and calls that variant's translated method (every
// variant's method must be listed in "functions"); a call on nil panics.
type DispatchCfg struct {
	Sum    string `json:"sum"`
	Method string `json:"method"`
	Coq    string `json:"coq"`
}

type TypeParamCfg struct {
	Name string `json:"name"`
	Eq   string `json:"eq"`
	Zero string `json:"zero"`
}

func loadConfig(path string) (*Config, error) {
	raw, err := os.ReadFile(path)
	if err != nil {
		return nil, err
	}
	c := &Config{}
	dec := json.NewDecoder(bytesReader(raw))
	dec.DisallowUnknownFields()
	if err := dec.Decode(c); err != nil {
		return nil, fmt.Errorf("%s: %v", path, err)
	}
	for _, inc := range c.Include {
		sub, err := loadConfig(filepath.Join(filepath.Dir(path), inc))
		if err != nil {
			return nil, err
		}
		mergeS(&c.Types, sub.Types)
		mergeS(&c.Zero, sub.Zero)
		mergeS(&c.EqTypes, sub.EqTypes)
		if c.Intrinsics == nil {
			c.Intrinsics = map[string]*Intrinsic{}
		}
		for k, v := range sub.Intrinsics {
			if _, ok := c.Intrinsics[k]; !ok {
				c.Intrinsics[k] = v
			}
		}
	}
	return c, nil
}

func mergeS(dst *map[string]string, src map[string]string) {
	if *dst == nil {
		*dst = map[string]string{}
	}
	for k, v := range src {
		if _, ok := (*dst)[k]; !ok {
			(*dst)[k] = v
		}
	}
}

func sortedKeys[V any](m map[string]V) []string {
	ks := make([]string, 0, len(m))
	for k := range m {
		ks = append(ks, k)
	}
	sort.Strings(ks)
	return ks
}
