package main

import (
	"fmt"
	"go/ast"
	"go/token"
	"math/big"
	"sort"
	"strconv"
	"strings"
)

// ---------------------------------------------------------------- environments

type varInfo struct {
	coq, typ string
	alias    ast.Expr  // the variable stands for this path (a local bound to a part of the state)
	seq      int       // order of declaration (loop-carried variables are listed in this order)
	fresh    string    // the variable was last assigned &T{…} (a new object nobody else refers to): T
	freshEnd token.Pos // end of that assignment: no other mention of the variable may lie between it and a store through it
}

type env struct {
	t    *T
	vars map[string]varInfo
	used map[string]bool
}

var coqKeywords = map[string]bool{"as": true, "at": true, "cofix": true, "else": true, "end": true, "exists": true,
	"fix": true, "for": true, "forall": true, "fun": true, "if": true, "in": true, "let": true, "match": true, "mod": true,
	"return": true, "then": true, "using": true, "where": true, "with": true, "Set": true, "Prop": true, "Type": true,
	"nil": true, "cons": true, "fst": true, "snd": true, "pair": true, "tt": true, "events_": true, "spawned_": true, "fn_": true, "true": true, "false": true,
	"Some": true, "None": true, "inl": true, "inr": true, "negb": true, "andb": true, "orb": true, "length": true,
	"map": true, "app": true, "Z": true, "bool": true, "list": true, "unit": true, "option": true}

// bindAlias: the Go variable is another name for a path into the state
func (e *env) bindAlias(goName, typ string, path ast.Expr) *env {
	n, _ := e.bind(goName, typ)
	v := n.vars[goName]
	v.alias = path
	n.vars[goName] = v
	return n
}

// withFresh: the variable now holds (does not hold any more) the address of a new object of
// struct type T that nothing else refers to
func (e *env) withFresh(goName, typ string, end ...token.Pos) *env {
	v, ok := e.vars[goName]
	if !ok || (v.fresh == typ && typ == "") {
		return e
	}
	if len(end) > 0 {
		v.freshEnd = end[0]
	}
	n := &env{t: e.t, vars: make(map[string]varInfo, len(e.vars)), used: e.used}
	for k, x := range e.vars {
		n.vars[k] = x
	}
	v.fresh = typ
	n.vars[goName] = v
	return n
}

func newEnv(t *T) *env { return &env{t: t, vars: map[string]varInfo{}, used: map[string]bool{}} }

func (e *env) bind(goName, typ string) (*env, string) {
	coq := goName
	for i := 0; e.used[coq] || coqKeywords[coq] || e.t.reserved[coq]; i++ {
		coq = fmt.Sprintf("%s_%d", goName, i+1)
	}
	n := &env{t: e.t, vars: make(map[string]varInfo, len(e.vars)+1), used: make(map[string]bool, len(e.used)+1)}
	for k, v := range e.vars {
		n.vars[k] = v
	}
	for k := range e.used {
		n.used[k] = true
	}
	n.vars[goName] = varInfo{coq: coq, typ: typ, seq: len(e.used)}
	n.used[coq] = true
	return n, coq
}

// ---------------------------------------------------------------- one function

type fctx struct {
	t        *T
	fi       *funcInfo
	stateful bool // flags assumed in this pass
	panics   bool
	sawWrite bool // flags discovered in this pass
	sawPanic bool
	emits    bool // the function calls event callbacks (assumed / discovered)
	sawEmit  bool
	spawns   bool // the function starts goroutines (assumed / discovered)
	sawSpawn bool
	spawnT   string
	atSelect bool // until_select: the term being built is "the select was reached"
	inputs   map[string]token.Pos
	stateCoq string // Coq name of the state variable
	rhsFresh string // the right-hand side of the assignment being translated is &T{…}: T
	rhsEnd   token.Pos
	guards   []string
	clock    map[token.Pos]int // clock call sites -> number of readings
	oracles  map[string]bool
	locks    []string
	loop     []*loopCtx
}

type loopCtx struct {
	carried []string // Coq names of the loop-carried variables
}

type cont func(e *env, ind int) string

func sp(n int) string { return strings.Repeat(" ", n) }

func (t *T) translateFunc(fi *funcInfo, from token.Pos) {
	if fi.done {
		return
	}
	if fi.busy {
		t.fail(from, "recursion through %s", fi.coq)
	}
	if fi.dispatch != nil {
		t.translateDispatcher(fi, from)
		return
	}
	fi.busy = true
	d := fi.decl
	if d.Type.TypeParams != nil && d.Recv == nil {
		// type parameters are fine as long as the type map gives them a Coq type
	}
	valueRecv := false
	if d.Recv != nil {
		r := d.Recv.List[0]
		if base := recvBase(d); t.structs[base] == nil && t.named[base] != "" && !strings.HasPrefix(typeStr(r.Type), "*") &&
			len(r.Names) == 1 && r.Names[0].Name != "_" && !fi.synth {
			// value receiver of a named non-struct type (a slice type): a copy, read as an
			// ordinary first parameter; nothing the function does to it is seen by the caller
			valueRecv = true
			fi.params = append(fi.params, fieldInfo{r.Names[0].Name, base})
		}
	}
	if d.Recv != nil && !valueRecv {
		r := d.Recv.List[0]
		fi.recvStruct = recvBase(d)
		if len(r.Names) == 1 && r.Names[0].Name != "_" {
			fi.recvName = r.Names[0].Name
		}
		si := t.structs[fi.recvStruct]
		if si == nil || si.cfg == nil {
			t.fail(d.Pos(), "receiver type %s is not a configured struct", fi.recvStruct)
		}
		if !strings.HasPrefix(typeStr(r.Type), "*") {
			t.fail(d.Pos(), "value receivers are not supported")
		}
	}
	for _, p := range d.Type.Params.List {
		if fi.synth {
			break // body of a go statement: the parameters (captured variables) are preset
		}
		ty := typeStr(p.Type)
		if len(p.Names) == 0 {
			t.fail(p.Pos(), "unnamed parameter")
		}
		for _, n := range p.Names {
			fi.params = append(fi.params, fieldInfo{n.Name, ty})
		}
	}
	var named []fieldInfo
	if d.Type.Results != nil {
		for _, r := range d.Type.Results.List {
			ty := typeStr(r.Type)
			if len(r.Names) == 0 {
				fi.results = append(fi.results, ty)
			}
			for _, n := range r.Names {
				fi.results = append(fi.results, ty)
				named = append(named, fieldInfo{n.Name, ty})
			}
		}
	}
	if len(named) > 0 {
		t.fail(d.Type.Results.Pos(), "named results are not supported")
	}
	var body string
	var f *fctx
	stateful, panics, emits, spawns := false, false, false, false
	spawnT := ""
	stmts := d.Body.List
	if fi.cfg.LoopBody {
		fs, ok := (ast.Stmt)(nil), false
		if len(stmts) == 1 {
			fs, ok = stmts[0], true
		}
		loop, isFor := fs.(*ast.ForStmt)
		if !ok || !isFor || loop.Init != nil || loop.Cond != nil || loop.Post != nil {
			t.fail(d.Pos(), "loop_body: the function is not a single `for { … }`")
		}
		stmts = loop.Body.List
	}
	if fi.cfg.UntilSelect {
		idx := -1
		for i, s := range stmts {
			if _, isSel := s.(*ast.SelectStmt); isSel {
				idx = i
				break
			}
		}
		if idx < 0 {
			t.fail(d.Pos(), "until_select: the function has no top-level select statement")
		}
		stmts = stmts[:idx]
	}
	for pass := 0; ; pass++ {
		f = &fctx{t: t, fi: fi, stateful: stateful, panics: panics, emits: emits, spawns: spawns, clock: map[token.Pos]int{}, oracles: map[string]bool{}, inputs: map[string]token.Pos{}}
		e := newEnv(t)
		if fi.recvName != "" {
			e, _ = e.bind(fi.recvName, "*"+fi.recvStruct)
		}
		for _, p := range fi.params {
			if p.name == "_" {
				continue
			}
			e, _ = e.bind(p.name, p.typ)
		}
		if sn := f.stateName(); sn != "" {
			f.stateCoq = e.vars[sn].coq
		}
		body = f.block(stmts, e, 2, func(e2 *env, ind int) string {
			if fi.cfg.UntilSelect {
				f.atSelect = true
				r := sp(ind) + f.ret(nil, e2)
				f.atSelect = false
				return r
			}
			if len(fi.results) > 0 {
				t.fail(d.Body.Rbrace, "missing return")
			}
			return sp(ind) + f.ret(nil, e2)
		})
		if emits {
			body = sp(2) + "let events_ := [] in\n" + body
		}
		if spawns {
			body = sp(2) + "let spawned_ : list " + spawnT + " := [] in\n" + body
		}
		if f.sawWrite == stateful && f.sawPanic == panics && f.sawEmit == emits && f.sawSpawn == spawns {
			break
		}
		emits = emits || f.sawEmit
		spawns = spawns || f.sawSpawn
		spawnT = f.spawnT
		if pass > 3 {
			t.fail(d.Pos(), "internal: effect flags of %s do not settle", fi.coq)
		}
		stateful, panics = f.sawWrite || stateful, f.sawPanic || panics
	}
	fi.stateful, fi.panics, fi.emits = stateful, panics, emits
	fi.spawns, fi.spawnT = spawns, spawnT
	// clock readings: one parameter per reading, in source order
	var sites []token.Pos
	for p := range f.clock {
		sites = append(sites, p)
	}
	sort.Slice(sites, func(i, j int) bool { return sites[i] < sites[j] })
	n := 0
	for _, p := range sites {
		n += f.clock[p]
	}
	fi.nclock = n
	k := 0
	var clockParams []string
	for _, p := range sites {
		for j := 0; j < f.clock[p]; j++ {
			k++
			name := "now"
			if n > 1 {
				name = fmt.Sprintf("now%d", k)
			}
			body = strings.ReplaceAll(body, clockMark(p, j), name)
			clockParams = append(clockParams, name)
		}
	}
	for _, o := range sortedKeys(t.cfg.Intrinsics) {
		if f.oracles[o] {
			fi.oracles = append(fi.oracles, o)
		}
	}
	fi.locks = f.locks
	// signature
	var sig []string
	for _, o := range fi.oracles {
		in := t.cfg.Intrinsics[o]
		sig = append(sig, fmt.Sprintf("(%s : %s)", in.Coq, in.Type))
	}
	e := newEnv(t)
	if fi.recvName != "" {
		var recvCoqName string
		e, recvCoqName = e.bind(fi.recvName, "")
		sig = append(sig, fmt.Sprintf("(%s : %s)", recvCoqName, t.structs[fi.recvStruct].cfg.Coq))
	} else if fi.recvStruct != "" {
		if fi.cfg.State == "" && stateful {
			t.fail(d.Pos(), "unnamed receiver of a function that changes its receiver")
		}
		sig = append(sig, fmt.Sprintf("(_ : %s)", t.structs[fi.recvStruct].cfg.Coq)) // unnamed receiver: never mentioned
	}
	for _, p := range fi.params {
		if p.name == "_" {
			sig = append(sig, fmt.Sprintf("(_ : %s)", t.coqType(d.Pos(), p.typ)))
			continue
		}
		var c string
		e, c = e.bind(p.name, p.typ)
		sig = append(sig, fmt.Sprintf("(%s : %s)", c, t.coqType(d.Pos(), p.typ)))
	}
	for _, c := range clockParams {
		sig = append(sig, fmt.Sprintf("(%s : Z)", c))
	}
	var rts []string
	for _, r := range fi.results {
		rts = append(rts, paren(t.coqType(d.Pos(), r)))
	}
	if fi.cfg.UntilSelect {
		inner := "unit"
		if len(rts) > 0 {
			inner = strings.Join(rts, " * ")
		}
		rts = []string{"(option (" + inner + "))"}
	}
	if emits {
		rts = append(rts, "(list gostring)")
	}
	if spawns {
		rts = append(rts, "(list "+spawnT+")")
	}
	resT := "unit"
	if len(rts) > 0 {
		resT = strings.Join(rts, " * ")
	}
	stT := f.stateCoqType()
	var retT string
	switch {
	case panics:
		retT = fmt.Sprintf("outcome %s %s", stT, paren(resT))
	case stateful && len(rts) > 0:
		retT = stT + " * " + resT
	case stateful:
		retT = stT
	default:
		retT = resT
	}
	r := ""
	if fi.recvStruct != "" {
		r = "(" + fi.recvStruct + ")."
	}
	var notes []string
	if len(f.locks) > 0 {
		notes = append(notes, "atomic section (dropped): "+strings.Join(f.locks, ", "))
	}
	if n > 0 {
		notes = append(notes, fmt.Sprintf("clock readings: %s", strings.Join(clockParams, ", ")))
	}
	if stateful {
		if fi.cfg.State != "" {
			notes = append(notes, "returns the updated "+fi.cfg.State+" (threaded through as state) first")
		} else {
			notes = append(notes, "returns the updated receiver first")
		}
	}
	if panics {
		notes = append(notes, "can panic")
	}
	if emits {
		notes = append(notes, "returns the list of emitted events (callbacks called, in order) last")
	}
	if spawns {
		notes = append(notes, "returns the list of goroutines it started (go statements, in order; the captured values) last")
	}
	if fi.cfg.LoopBody {
		notes = append(notes, "ONE iteration of the function's `for { … }` loop")
	}
	if fi.cfg.UntilSelect {
		notes = append(notes, "ONLY the part before the function's first `select` statement: the result is Some (results) for a return inside that part, None = the select was reached (the function blocks there; the rest is not translated)")
	}
	what := "func " + r + d.Name.Name
	if fi.synth {
		what = "body of the goroutine `go func() { … }()` started by " + fi.spawnedBy
		notes = append(notes, "parameters after the state: the variables it captured ("+orNone(strings.Join(fi.captured, ", "))+"), none of them assigned after the go statement; its clock readings are its own (it runs when the scheduler lets it)")
	}
	note := ""
	if len(notes) > 0 {
		note = "\n   " + strings.Join(notes, "; ")
	}
	fi.text = fmt.Sprintf("(* %s\n   %s%s *)\nDefinition %s %s\n  : %s :=\n%s.\n",
		what, t.srcInfo(d.Pos(), d.End()), note, fi.coq, strings.Join(sig, " "), retT, body)
	t.out = append(t.out, fi.text)
	fi.busy, fi.done = false, true
}

func clockMark(p token.Pos, j int) string { return fmt.Sprintf("@CLOCK%d.%d@", int(p), j) }

// the variable threaded through as state: the receiver, or the parameter named by "state"
func (f *fctx) stateName() string {
	if f.fi.cfg.State != "" {
		return f.fi.cfg.State
	}
	return f.fi.recvName
}

func (f *fctx) recvCoq() string { return f.stateCoq }

func (f *fctx) isState(name string) bool { return name != "" && name == f.stateName() }

func (f *fctx) stateCoqType() string {
	t := f.t
	if f.fi.cfg.State != "" {
		for _, p := range f.fi.params {
			if p.name == f.fi.cfg.State {
				return t.coqType(f.fi.decl.Pos(), p.typ)
			}
		}
		t.fail(f.fi.decl.Pos(), "state parameter %s not found", f.fi.cfg.State)
	}
	if f.fi.recvStruct != "" && f.fi.recvName != "" {
		return t.structs[f.fi.recvStruct].cfg.Coq
	}
	return "unit" // no state variable (plain function, or a receiver that is never named)
}

// the term a `return` produces
func (f *fctx) ret(results []string, e *env) string {
	if f.fi.cfg.UntilSelect {
		if f.atSelect {
			results = []string{"None"}
		} else {
			results = []string{"(Some " + paren(tuple(results)) + ")"}
		}
	}
	if f.emits {
		results = append(append([]string{}, results...), "events_")
	}
	if f.spawns {
		results = append(append([]string{}, results...), "spawned_")
	}
	res := "tt"
	if len(results) > 0 {
		res = "(" + strings.Join(results, ", ") + ")"
		if len(results) == 1 {
			res = results[0]
		}
	}
	st := "tt"
	if f.stateName() != "" {
		st = f.recvCoq()
	}
	var term string
	switch {
	case f.panics:
		term = fmt.Sprintf("Normal %s %s", st, paren(res))
	case f.stateful && len(results) > 0:
		term = fmt.Sprintf("(%s, %s)", st, strings.Join(results, ", "))
	case f.stateful:
		term = st
	default:
		term = res
	}
	return f.leave(term)
}

func (f *fctx) panicTerm() string {
	f.sawPanic = true
	st := "tt"
	if f.stateName() != "" {
		st = f.recvCoq()
	}
	return f.leave("Panicked " + st)
}

// inside a loop body leaving the function is [LReturn]
func (f *fctx) leave(term string) string {
	for range f.loop {
		term = "LReturn " + paren(term)
	}
	return term
}

func (f *fctx) takeGuards(from int) []string {
	g := append([]string{}, f.guards[from:]...)
	f.guards = f.guards[:from]
	return g
}

// wraps the translation of one statement in the panic guards its expressions raised
func (f *fctx) guarded(gs []string, ind int, body func(ind int) string) string {
	if len(gs) == 0 {
		return body(ind)
	}
	cond := gs[0]
	for _, g := range gs[1:] {
		cond = fmt.Sprintf("orb %s %s", paren(cond), paren(g))
	}
	return fmt.Sprintf("%sif %s then %s\n%selse\n%s", sp(ind), cond, f.panicTerm(), sp(ind), body(ind))
}

// ---------------------------------------------------------------- statements

func (f *fctx) block(list []ast.Stmt, e *env, ind int, k cont) string {
	if len(list) == 0 {
		return k(e, ind)
	}
	rest := func(e2 *env, ind2 int) string { return f.block(list[1:], e2, ind2, k) }
	return f.stmt(list[0], e, ind, rest)
}

// a nested block: what it declares goes out of scope at its end
func (f *fctx) scoped(list []ast.Stmt, e *env, ind int, k cont) string {
	return f.block(list, e, ind, func(inner *env, ind2 int) string { return k(mergeFresh(e, inner), ind2) })
}

// mergeFresh: the outer environment after a nested block: what the block declared is gone,
// but what it did to the "just assigned &T{…}" status of the outer variables stays (each path
// has its own continuation, so the inner status is the status on this path)
func mergeFresh(outer, inner *env) *env {
	res := outer
	for name, ov := range outer.vars {
		iv, ok := inner.vars[name]
		if !ok || iv.coq != ov.coq || (iv.fresh == ov.fresh && iv.freshEnd == ov.freshEnd) {
			continue
		}
		if iv.fresh == "" {
			res = res.withFresh(name, "")
		} else {
			res = res.withFresh(name, iv.fresh, iv.freshEnd)
		}
	}
	return res
}

func (f *fctx) stmt(s ast.Stmt, e *env, ind int, k cont) string {
	t := f.t
	if len(t.cfg.SkipStmts) > 0 {
		p, q := t.fset.Position(s.Pos()), t.fset.Position(s.End())
		text := string(t.src[p.Filename][p.Offset:q.Offset])
		for i, sk := range t.cfg.SkipStmts {
			if sk.Text == text {
				t.skipped[i] = true
				return k(e, ind) // dropped on purpose (configuration), listed in the header
			}
		}
	}
	switch s := s.(type) {
	case *ast.EmptyStmt:
		return k(e, ind)
	case *ast.BlockStmt:
		return f.scoped(s.List, e, ind, k)
	case *ast.ReturnStmt:
		return f.returnStmt(s, e, ind)
	case *ast.IfStmt:
		if s.Init != nil {
			return f.stmt(s.Init, e, ind, func(e2 *env, ind2 int) string {
				return f.ifStmt(s, e2, ind2, func(_ *env, ind3 int) string { return k(e, ind3) })
			})
		}
		return f.ifStmt(s, e, ind, k)
	case *ast.IncDecStmt:
		g0 := len(f.guards)
		cur, ty := f.expr(s.X, e)
		if !isZ(ty) {
			t.fail(s.Pos(), "++/-- on %s", ty)
		}
		op := "+"
		if s.Tok == token.DEC {
			op = "-"
		}
		gs := f.takeGuards(g0)
		return f.guarded(gs, ind, func(ind int) string {
			line, e2 := f.assignTo(s.X, fmt.Sprintf("%s %s 1", cur, op), ty, e, false)
			return sp(ind) + line + "\n" + k(e2, ind)
		})
	case *ast.AssignStmt:
		return f.assignStmt(s, e, ind, k)
	case *ast.DeclStmt:
		gd, ok := s.Decl.(*ast.GenDecl)
		if !ok || gd.Tok != token.VAR {
			t.fail(s.Pos(), "local declaration other than var")
		}
		var lhs, rhs []ast.Expr
		var specs []*ast.ValueSpec
		for _, sp := range gd.Specs {
			specs = append(specs, sp.(*ast.ValueSpec))
		}
		return f.varSpecs(specs, lhs, rhs, e, ind, k)
	case *ast.ExprStmt:
		x := s.X
		if u, isRecv := x.(*ast.UnaryExpr); isRecv && u.Op == token.ARROW {
			// `<-x.After(d)`: the statement blocks until the channel returned by a call of a
			// "wait" intrinsic delivers; the intrinsic stands for the call and the receive
			if cc, isCall := unparen(u.X).(*ast.CallExpr); isCall {
				if c := f.resolve(cc, e); c.in != nil && c.in.Kind == "wait" {
					x = cc
				}
			}
		}
		call, ok := x.(*ast.CallExpr)
		if !ok {
			t.fail(s.Pos(), "expression statement that is not a call")
		}
		c := f.resolve(call, e)
		switch c.kind {
		case "lock":
			f.noteLock(call, c)
			return k(e, ind)
		case "skip":
			f.checkSkippable(call, e)
			return k(e, ind)
		case "emit":
			if c.in.On != "" && len(call.Args) == 1 && exprText(call.Args[0]) == c.in.On {
				// an effect on an object outside the state, named by its source text in the
				// configuration ("on"): recorded as an event
				f.checkPure(call.Args[0], e)
			} else if len(call.Args) != 0 {
				t.fail(call.Pos(), "event callback with arguments (other than the one the configuration names)")
			}
			if len(f.loop) > 0 {
				t.fail(call.Pos(), "event callback inside a loop")
			}
			f.sawEmit = true
			return fmt.Sprintf("%slet events_ := events_ ++ [%s] in\n", sp(ind), c.in.Coq) + k(e, ind)
		}
		return f.callStmt(call, c, nil, false, e, ind, k)
	case *ast.DeferStmt:
		c := f.resolve(s.Call, e)
		if c.kind != "lock" {
			t.fail(s.Pos(), "defer of anything but a mutex operation")
		}
		f.noteLock(s.Call, c)
		return k(e, ind)
	case *ast.RangeStmt:
		return f.rangeStmt(s, e, ind, k)
	case *ast.GoStmt:
		return f.goStmt(s, e, ind, k)
	case *ast.SwitchStmt:
		return f.switchStmt(s, e, ind, k)
	case *ast.BranchStmt:
		if s.Label != nil || len(f.loop) == 0 {
			t.fail(s.Pos(), "%s outside a translated loop / with a label", s.Tok)
		}
		lc := f.loop[len(f.loop)-1]
		switch s.Tok {
		case token.BREAK:
			return sp(ind) + "LBreak " + tuple(lc.carried)
		case token.CONTINUE:
			return sp(ind) + "LNext " + tuple(lc.carried)
		}
	}
	t.fail(s.Pos(), "statement %T", s)
	return ""
}

func tuple(names []string) string {
	switch len(names) {
	case 0:
		return "tt"
	case 1:
		return names[0]
	}
	return "(" + strings.Join(names, ", ") + ")"
}

func pattern(names []string) string {
	switch len(names) {
	case 0:
		return "_"
	case 1:
		return names[0]
	}
	return "'(" + strings.Join(names, ", ") + ")"
}

func (f *fctx) noteLock(call *ast.CallExpr, c *callee) {
	txt := exprText(call.Fun)
	for _, l := range f.locks {
		if l == txt {
			return
		}
	}
	f.locks = append(f.locks, txt)
}

func exprText(e ast.Expr) string {
	switch e := e.(type) {
	case *ast.Ident:
		return e.Name
	case *ast.SelectorExpr:
		return exprText(e.X) + "." + e.Sel.Name
	case *ast.CallExpr:
		return exprText(e.Fun) + "(…)"
	case *ast.StarExpr:
		return "*" + exprText(e.X)
	case *ast.UnaryExpr:
		return e.Op.String() + exprText(e.X)
	case *ast.ParenExpr:
		return exprText(e.X)
	}
	return "…"
}

func (f *fctx) varSpecs(specs []*ast.ValueSpec, _ []ast.Expr, _ []ast.Expr, e *env, ind int, k cont) string {
	if len(specs) == 0 {
		return k(e, ind)
	}
	vs := specs[0]
	next := func(e2 *env, ind2 int) string { return f.varSpecs(specs[1:], nil, nil, e2, ind2, k) }
	if len(vs.Values) == 0 {
		ty := typeStr(vs.Type)
		out := ""
		for _, n := range vs.Names {
			if n.Name == "_" {
				continue
			}
			var c string
			e, c = e.bind(n.Name, ty)
			out += fmt.Sprintf("%slet %s := %s in\n", sp(ind), c, f.t.zero(vs.Pos(), ty))
		}
		return out + next(e, ind)
	}
	lhs := make([]ast.Expr, len(vs.Names))
	for i, n := range vs.Names {
		lhs[i] = n
	}
	declT := ""
	if vs.Type != nil {
		declT = typeStr(vs.Type)
	}
	return f.assign(vs.Pos(), lhs, vs.Values, true, declT, e, ind, next)
}

func (f *fctx) assignStmt(s *ast.AssignStmt, e *env, ind int, k cont) string {
	switch s.Tok {
	case token.DEFINE:
		return f.assign(s.Pos(), s.Lhs, s.Rhs, true, "", e, ind, k)
	case token.ASSIGN:
		return f.assign(s.Pos(), s.Lhs, s.Rhs, false, "", e, ind, k)
	}
	ops := map[token.Token]token.Token{token.ADD_ASSIGN: token.ADD, token.SUB_ASSIGN: token.SUB, token.MUL_ASSIGN: token.MUL,
		token.QUO_ASSIGN: token.QUO, token.REM_ASSIGN: token.REM}
	op, ok := ops[s.Tok]
	if !ok || len(s.Lhs) != 1 {
		f.t.fail(s.Pos(), "assignment operator %s", s.Tok)
	}
	bin := &ast.BinaryExpr{X: s.Lhs[0], Op: op, Y: s.Rhs[0], OpPos: s.TokPos}
	return f.assign(s.Pos(), s.Lhs, []ast.Expr{bin}, false, "", e, ind, k)
}

// assign handles `lhs… := rhs…`, `lhs… = rhs…` and `var lhs… T = rhs…`.
func (f *fctx) assign(pos token.Pos, lhs, rhs []ast.Expr, define bool, declT string, e *env, ind int, k cont) string {
	t := f.t
	if define && len(lhs) == 1 && len(rhs) == 1 {
		// x := <path into the state> of a reference type: x is another name for that path
		if id, ok := lhs[0].(*ast.Ident); ok && id.Name != "_" && f.isStatePath(rhs[0], e) {
			if ty := f.typeOf(rhs[0], e); ty != "" && f.isRef(ty) {
				if _, exists := e.vars[id.Name]; exists && f.declaredHere(id) {
					t.fail(pos, "redeclaration of %s as an alias", id.Name)
				}
				return k(e.bindAlias(id.Name, ty, rhs[0]), ind)
			}
		}
	}
	if len(rhs) == 1 {
		// forms whose right-hand side is not a plain expression
		switch r := unparen(rhs[0]).(type) {
		case *ast.CallExpr:
			c := f.resolve(r, e)
			if f.effectful(c) || len(lhs) > 1 {
				return f.callStmt(r, c, lhs, define, e, ind, k)
			}
		case *ast.TypeAssertExpr:
			if len(lhs) == 2 {
				g0 := len(f.guards)
				x, xt := f.expr(r.X, e)
				to := typeStr(r.Type)
				a := f.assertion(r.Pos(), xt, to)
				term := fmt.Sprintf("%s %s", a.Pair, paren(x))
				if a.Pair == "" {
					term = fmt.Sprintf("(%s %s, %s %s)", a.Val, paren(x), a.Ok, paren(x))
				}
				gs := f.takeGuards(g0)
				return f.guarded(gs, ind, func(ind int) string {
					return f.bindResults(pos, lhs, term, []string{to, "bool"}, define, e, ind, k)
				})
			}
		case *ast.IndexExpr:
			if len(lhs) == 2 {
				g0 := len(f.guards)
				m, mt := f.expr(r.X, e)
				kt, vt, ok := mapTypes(mt)
				if !ok {
					t.fail(r.Pos(), "v, ok := x[k] on %s", mt)
				}
				key, kty := f.expr(r.Index, e)
				key = t.conv(r.Pos(), key, kty, kt)
				term := fmt.Sprintf("map_lookup %s %s %s %s", t.eqb(r.Pos(), kt), paren(t.zero(r.Pos(), vt)), paren(m), paren(key))
				gs := f.takeGuards(g0)
				return f.guarded(gs, ind, func(ind int) string {
					return f.bindResults(pos, lhs, term, []string{vt, "bool"}, define, e, ind, k)
				})
			}
		}
	}
	if len(lhs) != len(rhs) {
		t.fail(pos, "assignment of %d values to %d places", len(rhs), len(lhs))
	}
	// Go evaluates every right-hand side before it assigns
	g0 := len(f.guards)
	terms := make([]string, len(rhs))
	types := make([]string, len(rhs))
	for i, r := range rhs {
		terms[i], types[i] = f.expr(r, e)
		if declT != "" {
			terms[i] = t.conv(r.Pos(), terms[i], types[i], declT)
			types[i] = declT
		}
	}
	gs := f.takeGuards(g0)
	return f.guarded(gs, ind, func(ind int) string {
		if len(lhs) == 1 {
			f.rhsFresh = ""
			if u, isAddr := unparen(rhs[0]).(*ast.UnaryExpr); isAddr && u.Op == token.AND {
				if cl, isLit := unparen(u.X).(*ast.CompositeLit); isLit && cl.Type != nil {
					f.rhsFresh = typeStr(cl.Type)
					f.rhsEnd = rhs[0].End()
				}
			}
			line, e2 := f.assignTo(lhs[0], terms[0], types[0], e, define)
			f.rhsFresh = ""
			if line == "" {
				return k(e2, ind)
			}
			return sp(ind) + line + "\n" + k(e2, ind)
		}
		return f.bindResults(pos, lhs, "("+strings.Join(terms, ", ")+")", types, define, e, ind, k)
	})
}

func unparen(e ast.Expr) ast.Expr {
	for {
		p, ok := e.(*ast.ParenExpr)
		if !ok {
			return e
		}
		e = p.X
	}
}

// bindResults: `let '(a, b) := term in` followed by the assignments to places
// that are not plain variables.
func (f *fctx) bindResults(pos token.Pos, lhs []ast.Expr, term string, types []string, define bool, e *env, ind int, k cont) string {
	t := f.t
	if len(lhs) != len(types) {
		t.fail(pos, "%d results bound to %d places", len(types), len(lhs))
	}
	names := make([]string, len(lhs))
	var later []func(e *env) (string, *env)
	fresh := false
	for i, l := range lhs {
		id, isId := l.(*ast.Ident)
		switch {
		case isId && id.Name == "_":
			names[i] = "_"
		case isId:
			v, exists := e.vars[id.Name]
			if define && !exists { // (redeclaration in the same scope assigns; an inner scope redeclaring is handled by bind below)
				fresh = true
				e, names[i] = e.bind(id.Name, defaultType(types[i]))
			} else if define && exists && !f.declaredHere(id) {
				e, names[i] = e.bind(id.Name, defaultType(types[i]))
				fresh = true
			} else if exists {
				ty := types[i]
				if ty != v.typ {
					tmp := ""
					e, tmp = e.bind("tmp", ty)
					names[i] = tmp
					ll, ty2 := l, ty
					later = append(later, func(e *env) (string, *env) { return f.assignTo(ll, tmp, ty2, e, false) })
				} else {
					names[i] = v.coq
				}
			} else {
				t.fail(l.Pos(), "assignment to undeclared %s", id.Name)
			}
		default:
			tmp := ""
			e, tmp = e.bind("tmp", types[i])
			names[i] = tmp
			ll, ty := l, types[i]
			later = append(later, func(e *env) (string, *env) { return f.assignTo(ll, tmp, ty, e, false) })
		}
	}
	if define && !fresh {
		t.fail(pos, "no new variables on left side of :=")
	}
	for _, l := range lhs {
		if id, isId := l.(*ast.Ident); isId && id.Name != "_" {
			e = e.withFresh(id.Name, "")
		}
	}
	out := fmt.Sprintf("%slet %s := %s in\n", sp(ind), pattern(names), term)
	for _, l := range later {
		var line string
		line, e = l(e)
		out += sp(ind) + line + "\n"
	}
	return out + k(e, ind)
}

func defaultType(t string) string {
	if t == "untyped int" {
		return "int"
	}
	return t
}

// In Go `a, b := …` re-uses a variable of the SAME scope and declares a new one
// otherwise.  The parser's object resolution tells which: the identifier's
// object is declared by this very statement iff it is new.
func (f *fctx) declaredHere(id *ast.Ident) bool {
	if id.Obj == nil {
		return true
	}
	if as, ok := id.Obj.Decl.(*ast.AssignStmt); ok {
		for _, l := range as.Lhs {
			if l == id {
				return false // this statement declares it: new variable (caller binds)
			}
		}
		return true // declared by an earlier statement of the same scope: plain assignment
	}
	return true
}

// assignTo: one `let … in` line storing a value into a place.
func (f *fctx) assignTo(l ast.Expr, term, ty string, e *env, define bool) (string, *env) {
	t := f.t
	l = unparen(l)
	if id, ok := l.(*ast.Ident); ok {
		if id.Name == "_" {
			return "", e
		}
		v, exists := e.vars[id.Name]
		if define && (!exists || !f.declaredHere(id)) {
			var c string
			e, c = e.bind(id.Name, defaultType(ty))
			e = e.withFresh(id.Name, f.rhsFresh, f.rhsEnd)
			return fmt.Sprintf("let %s := %s in", c, term), e
		}
		if !exists {
			t.fail(l.Pos(), "assignment to %s, which is not a local variable", id.Name)
		}
		if define {
			t.fail(l.Pos(), "no new variables on left side of :=")
		}
		if v.alias != nil {
			t.fail(l.Pos(), "assignment to %s, a local that stands for a part of the state", id.Name)
		}
		if f.isState(id.Name) {
			t.fail(l.Pos(), "assignment to the state variable %s itself", id.Name)
		}
		return fmt.Sprintf("let %s := %s in", v.coq, t.conv(l.Pos(), term, ty, v.typ)), e.withFresh(id.Name, f.rhsFresh, f.rhsEnd)
	}
	if define {
		t.fail(l.Pos(), "non-name on left side of :=")
	}
	return f.store(l, term, ty, e), e
}

// store: `let root := <root with the place replaced> in` for an assignable path.
// Only the state variable may be changed through a reference; other roots must be values.
func (f *fctx) store(l ast.Expr, term, ty string, e *env) string {
	t := f.t
	root, upd, placeT := f.place(l, e)
	v := e.vars[root]
	if f.isState(root) {
		f.sawWrite = true
	} else if f.isRef(v.typ) {
		t.fail(l.Pos(), "change through %s of reference type %s, which is not the state variable (aliasing is not modelled)", root, v.typ)
	}
	return fmt.Sprintf("let %s := %s in", v.coq, upd(t.conv(l.Pos(), term, ty, placeT)))
}

// isStatePath: the state variable followed by accessor calls without arguments and field selections
func (f *fctx) isStatePath(x ast.Expr, e *env) bool {
	switch y := unparen(x).(type) {
	case *ast.Ident:
		v, ok := e.vars[y.Name]
		return ok && v.alias == nil && f.isState(y.Name)
	case *ast.SelectorExpr:
		if f.t.structOf(f.typeOf(y.X, e)) == nil {
			return false
		}
		return f.isStatePath(y.X, e)
	case *ast.CallExpr:
		s, ok := unparen(y.Fun).(*ast.SelectorExpr)
		if !ok || len(y.Args) != 0 || !f.isStatePath(s.X, e) {
			return false
		}
		c := f.resolve(y, e)
		return c.kind == "id" || c.kind == "field"
	}
	return false
}

// isRef: Go types whose values are references (a copy shares what it refers to)
func (f *fctx) isRef(goT string) bool {
	if strings.HasPrefix(goT, "*") || strings.HasPrefix(goT, "map[") {
		return true
	}
	for _, r := range f.t.cfg.RefTypes {
		if r == goT {
			return true
		}
	}
	return false
}

// place analyses an assignable path x.f.g / x.f[k]: the root variable, a function
// building the updated root from the new value of the place, and the place's type.
func (f *fctx) place(l ast.Expr, e *env) (root string, upd func(string) string, typ string) {
	t := f.t
	switch l := unparen(l).(type) {
	case *ast.Ident:
		v, ok := e.vars[l.Name]
		if !ok {
			t.fail(l.Pos(), "%s is not a local variable", l.Name)
		}
		if v.alias != nil {
			return f.place(v.alias, e)
		}
		return l.Name, func(nv string) string { return nv }, v.typ
	case *ast.CallExpr:
		c := f.resolve(l, e)
		switch c.kind {
		case "id":
			return f.place(c.recv, e)
		case "field": // accessor: a part of its receiver
			if len(l.Args) != 0 || len(c.in.Ret) != 1 {
				t.fail(l.Pos(), "accessor with arguments")
			}
			r, up, _ := f.place(c.recv, e)
			cur, _ := f.expr(c.recv, e)
			return r, func(nv string) string {
				return up(fmt.Sprintf("set_%s %s %s", c.in.Coq, paren(nv), paren(cur)))
			}, c.in.Ret[0]
		}
		t.fail(l.Pos(), "a call is not an assignable path")
	case *ast.TypeAssertExpr:
		// x.(*T).f = v  where x is a local of a sum type that was just assigned &T{…}: the
		// object is new, nobody else refers to it, its dynamic type is known
		id, isId := unparen(l.X).(*ast.Ident)
		if !isId || l.Type == nil {
			t.fail(l.Pos(), "store through a type assertion on anything but a local variable")
		}
		v, ok := e.vars[id.Name]
		sc, isSum := t.cfg.Sums[v.typ]
		to := typeStr(l.Type)
		if !ok || !isSum || v.alias != nil {
			t.fail(l.Pos(), "store through a type assertion on %s, which is not a local of a sum type", id.Name)
		}
		if !strings.HasPrefix(to, "*") || v.fresh == "" || v.fresh != to[1:] {
			t.fail(l.Pos(), "store through %s.(%s): %s was not just assigned &%s{…} (the object may be shared: aliasing is not modelled)", id.Name, to, id.Name, strings.TrimPrefix(to, "*"))
		}
		if len(f.loop) > 0 {
			t.fail(l.Pos(), "store through a type assertion inside a loop")
		}
		// between that assignment and this store the variable may only be mentioned as
		// x.(*T).field (read or stored): any other mention could have copied the reference
		if p := f.otherMention(id, v.freshEnd, l.Pos()); p.IsValid() {
			t.fail(p, "%s is mentioned between its assignment &%s{…} and the store through %s.(%s) at line %d (the object may be shared)", id.Name, to[1:], id.Name, to, t.fset.Position(l.Pos()).Line)
		}
		return id.Name, func(nv string) string { return fmt.Sprintf("%s_%s %s", sc.Coq, to[1:], paren(nv)) }, to
	case *ast.SelectorExpr:
		r, up, ty := f.place(l.X, e)
		si := t.structOf(ty)
		if si == nil || si.cfg == nil {
			t.fail(l.Pos(), "field of %s, which is not a configured struct", ty)
		}
		g0 := len(f.guards)
		cur, _ := f.expr(l.X, e)
		if _, viaAssert := unparen(l.X).(*ast.TypeAssertExpr); viaAssert {
			f.guards = f.guards[:g0] // the dynamic type was established by place above
		}
		for _, fl := range si.kept {
			if fl.name == l.Sel.Name {
				return r, func(nv string) string {
					return up(fmt.Sprintf("set_%s_%s %s %s", si.cfg.Coq, fl.name, paren(nv), paren(cur)))
				}, fl.typ
			}
		}
		t.fail(l.Pos(), "field %s.%s is not part of the record (configuration)", si.name, l.Sel.Name)
	case *ast.IndexExpr:
		r, up, ty := f.place(l.X, e)
		kt, vt, ok := mapTypes(ty)
		if !ok {
			t.fail(l.Pos(), "indexed store into %s", ty)
		}
		cur, _ := f.expr(l.X, e)
		key, kty := f.expr(l.Index, e)
		key = t.conv(l.Pos(), key, kty, kt)
		return r, func(nv string) string {
			return up(fmt.Sprintf("map_set %s %s %s %s", t.eqb(l.Pos(), kt), paren(cur), paren(key), paren(nv)))
		}, vt
	case *ast.UnaryExpr:
		if l.Op == token.AND {
			return f.place(l.X, e)
		}
	case *ast.StarExpr:
		return f.place(l.X, e)
	}
	t.fail(l.Pos(), "not an assignable path")
	return
}

func mapTypes(t string) (k, v string, ok bool) {
	if !strings.HasPrefix(t, "map[") {
		return
	}
	depth := 0
	for i := 3; i < len(t); i++ {
		switch t[i] {
		case '[':
			depth++
		case ']':
			depth--
			if depth == 0 {
				return t[4:i], t[i+1:], true
			}
		}
	}
	return
}

func (f *fctx) ifStmt(s *ast.IfStmt, e *env, ind int, k cont) string {
	g0 := len(f.guards)
	c, ct := f.expr(s.Cond, e)
	if ct != "bool" {
		f.t.fail(s.Cond.Pos(), "condition of type %s", ct)
	}
	gs := f.takeGuards(g0)
	return f.guarded(gs, ind, func(ind int) string {
		thenS := f.scoped(s.Body.List, e, ind+2, k)
		var elseS string
		switch el := s.Else.(type) {
		case nil:
			elseS = k(e, ind+2)
		case *ast.BlockStmt:
			elseS = f.scoped(el.List, e, ind+2, k)
		case *ast.IfStmt:
			elseS = f.stmt(el, e, ind+2, k)
		default:
			f.t.fail(s.Else.Pos(), "else branch %T", s.Else)
		}
		return fmt.Sprintf("%sif %s then\n%s\n%selse\n%s", sp(ind), c, thenS, sp(ind), elseS)
	})
}

func (f *fctx) returnStmt(s *ast.ReturnStmt, e *env, ind int) string {
	t := f.t
	if len(s.Results) == 1 && len(f.fi.results) >= 1 {
		if call, ok := unparen(s.Results[0]).(*ast.CallExpr); ok {
			c := f.resolve(call, e)
			if f.effectful(c) || len(f.fi.results) > 1 {
				// return f(x)  ==  r… := f(x); return r…
				var names []ast.Expr
				for i := range f.fi.results {
					names = append(names, &ast.Ident{Name: fmt.Sprintf("ret%d", i+1), NamePos: s.Pos()})
				}
				if len(names) == 1 {
					names[0].(*ast.Ident).Name = "ret"
				}
				return f.callStmt(call, c, names, true, e, ind, func(e2 *env, ind2 int) string {
					var rs []string
					for i, n := range names {
						v := e2.vars[n.(*ast.Ident).Name]
						rs = append(rs, t.conv(s.Pos(), v.coq, v.typ, f.fi.results[i]))
					}
					return sp(ind2) + f.ret(rs, e2)
				})
			}
		}
	}
	if len(s.Results) != len(f.fi.results) {
		t.fail(s.Pos(), "return of %d values from a function with %d results", len(s.Results), len(f.fi.results))
	}
	g0 := len(f.guards)
	var rs []string
	for i, r := range s.Results {
		term, ty := f.expr(r, e)
		rs = append(rs, paren(t.conv(r.Pos(), term, ty, f.fi.results[i])))
	}
	gs := f.takeGuards(g0)
	return f.guarded(gs, ind, func(ind int) string { return sp(ind) + f.ret(rs, e) })
}

// ---------------------------------------------------------------- loops

// for i, x := range xs { … }  over a slice: a fold with early exit (GoSem.range_loop).
// The loop-carried variables are the variables of the enclosing scopes the body
// assigns (and the receiver when the function changes it).
func (f *fctx) rangeStmt(s *ast.RangeStmt, e *env, ind int, k cont) string {
	t := f.t
	if s.Tok != token.DEFINE && (s.Key != nil || s.Value != nil) {
		t.fail(s.Pos(), "range with = instead of :=")
	}
	g0 := len(f.guards)
	xs, xt := f.expr(s.X, e)
	if !strings.HasPrefix(xt, "[]") {
		t.fail(s.X.Pos(), "range over %s (only slices)", xt)
	}
	gs := f.takeGuards(g0)
	// carried variables
	assigned := map[string]bool{}
	calls := false
	ast.Inspect(s.Body, func(n ast.Node) bool {
		switch n := n.(type) {
		case *ast.AssignStmt:
			for _, l := range n.Lhs {
				if r := rootIdent(l); r != "" {
					assigned[r] = true
				}
			}
		case *ast.IncDecStmt:
			if r := rootIdent(n.X); r != "" {
				assigned[r] = true
			}
		case *ast.CallExpr:
			calls = true
		case *ast.FuncLit, *ast.GoStmt, *ast.DeferStmt, *ast.LabeledStmt, *ast.SelectStmt:
			t.fail(n.Pos(), "%T inside a loop body", n)
		}
		return true
	})
	var carriedGo []string
	for _, name := range sortedKeys(e.vars) {
		if f.isState(name) {
			if f.stateful && (assigned[name] || calls) {
				carriedGo = append(carriedGo, name)
			}
			continue
		}
		if assigned[name] {
			carriedGo = append(carriedGo, name)
		}
	}
	// in order of declaration (robust against renaming), the state variable first
	sort.SliceStable(carriedGo, func(i, j int) bool {
		if f.isState(carriedGo[i]) != f.isState(carriedGo[j]) {
			return f.isState(carriedGo[i])
		}
		return e.vars[carriedGo[i]].seq < e.vars[carriedGo[j]].seq
	})
	var carried []string
	for _, g := range carriedGo {
		carried = append(carried, e.vars[g].coq)
	}
	nclock := len(f.clock)
	be := e
	iName, xName := "_", "_"
	if id, ok := s.Key.(*ast.Ident); ok && id.Name != "_" {
		be, iName = be.bind(id.Name, "int")
	} else if s.Key != nil && !ok {
		t.fail(s.Key.Pos(), "range key that is not a name")
	}
	if id, ok := s.Value.(*ast.Ident); ok && id.Name != "_" {
		be, xName = be.bind(id.Name, xt[2:])
	} else if s.Value != nil && !ok {
		t.fail(s.Value.Pos(), "range value that is not a name")
	}
	var acc string
	be, acc = be.bind("acc", "")
	f.loop = append(f.loop, &loopCtx{carried: carried})
	body := f.block(s.Body.List, be, ind+6, func(_ *env, ind2 int) string { return sp(ind2) + "LNext " + tuple(carried) })
	f.loop = f.loop[:len(f.loop)-1]
	if len(f.clock) != nclock {
		t.fail(s.Pos(), "clock reading inside a loop")
	}
	return f.guarded(gs, ind, func(ind int) string {
		var b strings.Builder
		fmt.Fprintf(&b, "%smatch range_loop\n%s(fun %s %s %s =>\n", sp(ind), sp(ind+4), iName, xName, acc)
		if len(carried) > 0 {
			fmt.Fprintf(&b, "%slet %s := %s in\n", sp(ind+6), pattern(carried), acc)
		}
		fmt.Fprintf(&b, "%s)\n%s0 %s %s with\n", body, sp(ind+4), paren(xs), tuple(carried))
		fmt.Fprintf(&b, "%s| inr res => %s\n", sp(ind), f.leaveOuter("res"))
		fmt.Fprintf(&b, "%s| inl %s =>\n", sp(ind), acc)
		if len(carried) > 0 {
			fmt.Fprintf(&b, "%slet %s := %s in\n", sp(ind+4), pattern(carried), acc)
		}
		for _, g := range carriedGo {
			e = e.withFresh(g, "")
		}
		b.WriteString(k(e, ind+4))
		fmt.Fprintf(&b, "\n%send", sp(ind))
		return b.String()
	})
}

// a value that already is the function's result, seen from loop nesting level len(f.loop)
func (f *fctx) leaveOuter(term string) string { return f.leave(term) }

func rootIdent(e ast.Expr) string {
	for {
		switch x := e.(type) {
		case *ast.Ident:
			return x.Name
		case *ast.SelectorExpr:
			e = x.X
		case *ast.IndexExpr:
			e = x.X
		case *ast.ParenExpr:
			e = x.X
		case *ast.StarExpr:
			e = x.X
		default:
			return ""
		}
	}
}

// ---------------------------------------------------------------- calls

type callee struct {
	kind string // conv | func | fn | mut | clock | id | lock | skip | oracle | errtoken | const | builtin
	fn   *funcInfo
	in   *Intrinsic
	key  string
	recv ast.Expr
	conv string
}

func (f *fctx) resolve(call *ast.CallExpr, e *env) *callee {
	t := f.t
	fun := unparen(call.Fun)
	if ix, ok := fun.(*ast.IndexExpr); ok { // explicit instantiation f[T](…)
		fun = ix.X
	}
	intr := func(key string, recv ast.Expr) *callee {
		if in, ok := t.cfg.Intrinsics[key]; ok {
			t.usedIntr[key] = true
			if in.Kind == "wait" {
				// a blocking wait on a clock object kept in the state: a mutation of that object
				// which takes one reading of the clock (the instant the wait starts)
				if in.Clock == 0 {
					in.Clock = 1
				}
				return &callee{kind: "mut", in: in, key: key, recv: recv}
			}
			return &callee{kind: in.Kind, in: in, key: key, recv: recv}
		}
		return nil
	}
	switch fn := fun.(type) {
	case *ast.Ident:
		if v, isVar := e.vars[fn.Name]; isVar {
			if _, _, ok := funcSig(v.typ); ok && fullFuncTypes {
				return &callee{kind: "fnval"}
			}
			t.fail(call.Pos(), "call of the function value %s", fn.Name)
		}
		if isZ(fn.Name) || fn.Name == "string" || fn.Name == "bool" {
			return &callee{kind: "conv", conv: fn.Name}
		}
		if fi := t.funcs["."+fn.Name]; fi != nil {
			return &callee{kind: "func", fn: fi}
		}
		switch fn.Name {
		case "len", "append", "make", "delete":
			return &callee{kind: "builtin", key: fn.Name}
		}
		if c := intr(fn.Name, nil); c != nil {
			return c
		}
		t.fail(call.Pos(), "call of %s: neither translated nor an intrinsic", fn.Name)
	case *ast.SelectorExpr:
		if id, ok := fn.X.(*ast.Ident); ok && t.imports[id.Name] {
			if _, shadow := e.vars[id.Name]; !shadow {
				key := id.Name + "." + fn.Sel.Name
				if isZ(key) {
					return &callee{kind: "conv", conv: key}
				}
				if c := intr(key, nil); c != nil {
					return c
				}
				if c := intr(id.Name+".*", nil); c != nil {
					return c
				}
				t.fail(call.Pos(), "call of %s: not an intrinsic", key)
			}
		}
		rt := f.typeOf(fn.X, e)
		if rt == "" {
			t.fail(call.Pos(), "cannot type the receiver of .%s", fn.Sel.Name)
		}
		base := strings.TrimPrefix(rt, "*")
		if _, isSum := t.cfg.Sums[rt]; isSum {
			dc := t.findDispatch(rt, fn.Sel.Name)
			if dc == nil {
				t.fail(call.Pos(), "method %s called through the sum type %s: no \"dispatch\" entry", fn.Sel.Name, rt)
			}
			return &callee{kind: "func", fn: t.dispatcher(dc, call.Pos()), recv: fn.X}
		}
		if fi := t.funcs[base+"."+fn.Sel.Name]; fi != nil {
			return &callee{kind: "func", fn: fi, recv: fn.X}
		}
		if c := intr("("+base+")."+fn.Sel.Name, fn.X); c != nil {
			return c
		}
		if c := intr("("+base+").*", fn.X); c != nil {
			return c
		}
		if fullFuncTypes {
			if _, _, ok := funcSig(f.typeOf(fn, e)); ok {
				return &callee{kind: "fnval"} // call of a function-valued field
			}
		}
		t.fail(call.Pos(), "call of (%s).%s: neither translated nor an intrinsic", base, fn.Sel.Name)
	}
	t.fail(call.Pos(), "call of %T", fun)
	return nil
}

// typeOf: the Go type of an expression used as the receiver of a call (fields
// that are not part of the record have a type too)
func (f *fctx) typeOf(x ast.Expr, e *env) string {
	t := f.t
	switch x := unparen(x).(type) {
	case *ast.Ident:
		if v, ok := e.vars[x.Name]; ok {
			return v.typ
		}
		if g := t.globals[x.Name]; g != nil {
			_, ty := t.useGlobal(g)
			return ty
		}
	case *ast.SelectorExpr:
		if id, ok := x.X.(*ast.Ident); ok && t.imports[id.Name] {
			if _, shadow := e.vars[id.Name]; !shadow {
				if in, ok := t.cfg.Intrinsics[id.Name+"."+x.Sel.Name]; ok && len(in.Ret) == 1 {
					return in.Ret[0]
				}
				return ""
			}
		}
		if si := t.structOf(f.typeOf(x.X, e)); si != nil {
			for _, fl := range si.fields {
				if fl.name == x.Sel.Name {
					return fl.typ
				}
			}
		}
	case *ast.CallExpr:
		c := f.resolve(x, e)
		switch {
		case c.kind == "func" && len(c.fn.results) == 1:
			t.translateFunc(c.fn, x.Pos())
			return c.fn.results[0]
		case c.kind == "id":
			return f.typeOf(c.recv, e)
		case c.kind == "conv":
			return c.conv
		case c.in != nil && len(c.in.Ret) == 1:
			return c.in.Ret[0]
		}
	case *ast.StarExpr:
		return strings.TrimPrefix(f.typeOf(x.X, e), "*")
	case *ast.IndexExpr:
		xt := t.under(f.typeOf(x.X, e))
		if strings.HasPrefix(xt, "[]") {
			return xt[2:]
		}
		if _, vt, ok := mapTypes(xt); ok {
			return vt
		}
	case *ast.UnaryExpr:
		if x.Op == token.AND {
			return "*" + f.typeOf(x.X, e)
		}
	case *ast.TypeAssertExpr:
		if x.Type != nil {
			return typeStr(x.Type)
		}
	}
	return ""
}

// effectful: must the call be a statement of its own (it changes state, or can panic)?
func (f *fctx) effectful(c *callee) bool {
	switch c.kind {
	case "func":
		f.t.translateFunc(c.fn, token.NoPos)
		return c.fn.stateful || c.fn.panics
	case "mut", "lock", "skip":
		return true
	case "builtin":
		return c.key == "delete"
	}
	return false
}

// checkSkippable: a dropped (logging) call must have no effects in its arguments
func (f *fctx) checkSkippable(call *ast.CallExpr, e *env) { f.checkPure(call, e) }

// checkPure: an expression whose value is dropped must be free of effects
func (f *fctx) checkPure(top ast.Expr, e *env) {
	var walk func(x ast.Expr)
	walk = func(x ast.Expr) {
		switch x := unparen(x).(type) {
		case *ast.Ident, *ast.BasicLit:
		case *ast.SelectorExpr:
			walk(x.X)
		case *ast.CompositeLit:
			for _, el := range x.Elts {
				if kv, ok := el.(*ast.KeyValueExpr); ok {
					walk(kv.Value)
				} else {
					walk(el)
				}
			}
		case *ast.BinaryExpr:
			walk(x.X)
			walk(x.Y)
		case *ast.UnaryExpr:
			if x.Op == token.ARROW {
				f.t.fail(x.Pos(), "channel receive inside a dropped logging call")
			}
			walk(x.X)
		case *ast.IndexExpr:
			walk(x.X)
			walk(x.Index)
		case *ast.CallExpr:
			c := f.resolve(x, e)
			switch c.kind {
			case "skip", "id", "fn", "conv", "const", "errtoken", "sprintf", "oracle", "field", "fnval":
			case "builtin":
				if c.key == "delete" {
					f.t.fail(x.Pos(), "delete inside a dropped logging call")
				}
			case "func":
				if f.effectful(c) {
					f.t.fail(x.Pos(), "call with effects inside a dropped logging call")
				}
			default:
				f.t.fail(x.Pos(), "%s call inside a dropped logging call", c.kind)
			}
			if s, ok := unparen(x.Fun).(*ast.SelectorExpr); ok {
				walk(s.X)
			}
			for _, a := range x.Args {
				walk(a)
			}
		default:
			f.t.fail(x.Pos(), "%T inside a dropped logging call", x)
		}
	}
	walk(top)
}

// args translates the arguments of a call against the declared parameter types
func (f *fctx) args(call *ast.CallExpr, want []string, e *env) []string {
	t := f.t
	if want != nil && len(want) != len(call.Args) {
		t.fail(call.Pos(), "call with %d arguments, %d declared", len(call.Args), len(want))
	}
	var out []string
	for i, a := range call.Args {
		term, ty := f.expr(a, e)
		if want != nil {
			term = t.conv(a.Pos(), term, ty, want[i])
		} else if ty == "untyped nil" {
			t.fail(a.Pos(), "nil argument of unknown type")
		}
		out = append(out, paren(term))
	}
	return out
}

// callTerm: the Coq application for a call, with the types of its results.
// For effectful callees the term evaluates to the updated object followed by the results.
func (f *fctx) callTerm(call *ast.CallExpr, c *callee, e *env) (term string, results []string, obj ast.Expr) {
	t := f.t
	if call.Ellipsis.IsValid() && !(c.kind == "builtin" && c.key == "append") && c.kind != "skip" {
		t.fail(call.Pos(), "variadic call f(xs...)")
	}
	switch c.kind {
	case "conv":
		if len(call.Args) != 1 {
			t.fail(call.Pos(), "conversion with %d arguments", len(call.Args))
		}
		x, xt := f.expr(call.Args[0], e)
		if !(isZ(c.conv) && isZ(xt)) {
			t.fail(call.Pos(), "conversion %s(%s) (only between integer kinds, as the identity)", c.conv, xt)
		}
		return x, []string{c.conv}, nil
	case "func":
		fi := c.fn
		t.translateFunc(fi, call.Pos())
		if fi.emits {
			t.fail(call.Pos(), "call of %s, which emits events (not supported in a callee)", fi.coq)
		}
		if fi.spawns {
			t.fail(call.Pos(), "call of %s, which starts goroutines (not supported in a callee)", fi.coq)
		}
		var parts []string
		parts = append(parts, fi.coq)
		for _, o := range fi.oracles {
			f.oracles[o] = true
			parts = append(parts, t.cfg.Intrinsics[o].Coq)
		}
		if fi.recvStruct != "" {
			r, rt := f.expr(c.recv, e)
			if strings.TrimPrefix(rt, "*") != fi.recvStruct {
				t.fail(call.Pos(), "receiver of type %s for a method of %s", rt, fi.recvStruct)
			}
			parts = append(parts, paren(r))
			obj = c.recv
			if fi.dispatch != nil {
				if fi.panics {
					t.fail(call.Pos(), "call of %s through the sum type: its methods can panic (only as an entry point, not from translated code)", fi.coq)
				}
				// a method call on the nil interface panics
				f.guards = append(f.guards, fmt.Sprintf("match %s with %s_nil => true | _ => false end", r, t.cfg.Sums[fi.recvStruct].Coq))
				obj = nil
			}
		}
		var want []string
		for i, p := range fi.params {
			want = append(want, p.typ)
			if fi.cfg.State != "" && p.name == fi.cfg.State && i < len(call.Args) {
				obj = call.Args[i] // the callee threads this argument through as its state
			}
		}
		parts = append(parts, f.args(call, want, e)...)
		if fi.nclock > 0 {
			f.clock[call.Pos()] = fi.nclock
			for j := 0; j < fi.nclock; j++ {
				parts = append(parts, clockMark(call.Pos(), j))
			}
		}
		return strings.Join(parts, " "), fi.results, obj
	case "fn", "mut", "field":
		in := c.in
		parts := []string{in.Coq}
		args := call.Args
		if c.recv != nil && !in.NoRecv {
			r := c.recv
			if in.On != "" {
				r = &ast.SelectorExpr{X: c.recv, Sel: &ast.Ident{Name: in.On, NamePos: c.recv.Pos()}}
			}
			obj = r
			rt, _ := f.expr(r, e)
			parts = append(parts, paren(rt))
		} else if c.kind == "mut" {
			if len(args) == 0 {
				t.fail(call.Pos(), "mutating intrinsic without an object")
			}
			obj = args[0]
			ot, _ := f.expr(stripAddr(args[0]), e)
			parts = append(parts, paren(ot))
			call = &ast.CallExpr{Fun: call.Fun, Lparen: call.Lparen, Args: args[1:], Rparen: call.Rparen}
		}
		parts = append(parts, f.args(call, in.Args, e)...)
		if in.Clock > 0 {
			f.clock[call.Pos()] = in.Clock
			for j := 0; j < in.Clock; j++ {
				parts = append(parts, clockMark(call.Pos(), j))
			}
		}
		return strings.Join(parts, " "), in.Ret, obj
	case "fnval":
		// a function value: a pure application; nil panics
		fv, ft := f.expr(call.Fun, e)
		ps, res, ok := funcSig(ft)
		if !ok || res == "" {
			t.fail(call.Pos(), "call of a function value of type %s (one result, no function-typed parameters)", ft)
		}
		as := f.args(call, ps, e)
		f.guards = append(f.guards, fmt.Sprintf("match %s with None => true | Some _ => false end", fv))
		return fmt.Sprintf("match %s with Some fn_ => fn_ %s | None => %s end", fv, strings.Join(as, " "), t.zero(call.Pos(), res)), []string{res}, nil
	case "sprintf":
		return f.sprintf(call, e), []string{"string"}, nil
	case "clock":
		f.clock[call.Pos()] = 1
		return clockMark(call.Pos(), 0), []string{"time.Time"}, nil
	case "id":
		x, xt := f.expr(c.recv, e)
		return x, []string{xt}, nil
	case "oracle":
		f.oracles[c.key] = true
		parts := append([]string{c.in.Coq}, f.args(call, c.in.Args, e)...)
		return strings.Join(parts, " "), c.in.Ret, nil
	case "input":
		if len(call.Args) != 0 {
			t.fail(call.Pos(), "input callback with arguments")
		}
		if p, seen := f.inputs[c.key]; seen && p != call.Pos() {
			t.fail(call.Pos(), "the input %s is read at two places of one function", c.key)
		}
		if len(f.loop) > 0 {
			t.fail(call.Pos(), "input read inside a loop")
		}
		f.inputs[c.key] = call.Pos()
		f.oracles[c.key] = true
		return c.in.Coq, c.in.Ret, nil
	case "const":
		return c.in.Coq, c.in.Ret, nil
	case "errtoken":
		if len(call.Args) == 0 {
			t.fail(call.Pos(), "error constructor without a message")
		}
		s, ok := constString(call.Args[0])
		if !ok {
			t.fail(call.Pos(), "error constructor whose message is not a string literal")
		}
		for _, a := range call.Args[1:] {
			f.checkPure(a, e)
		}
		return "Err " + bytesTerm(s), []string{"error"}, nil
	case "builtin":
		return f.builtin(call, c, e)
	}
	t.fail(call.Pos(), "%s call in this position", c.kind)
	return
}

// fmt.Sprintf(format, args…) for a literal format made of text and %s verbs applied
// to strings: the concatenation it denotes
func (f *fctx) sprintf(call *ast.CallExpr, e *env) string {
	t := f.t
	if len(call.Args) == 0 {
		t.fail(call.Pos(), "Sprintf without a format")
	}
	lit, ok := unparen(call.Args[0]).(*ast.BasicLit)
	if !ok || lit.Kind != token.STRING {
		t.fail(call.Pos(), "Sprintf whose format is not a string literal")
	}
	format, _ := strconv.Unquote(lit.Value)
	var parts []string
	text := ""
	flush := func() {
		if text != "" {
			parts = append(parts, bytesTerm(text))
			text = ""
		}
	}
	next := 1
	for i := 0; i < len(format); i++ {
		if format[i] != '%' {
			text += string(format[i])
			continue
		}
		i++
		switch {
		case i < len(format) && format[i] == '%':
			text += "%"
		case i < len(format) && format[i] == 's':
			if next >= len(call.Args) {
				t.fail(call.Pos(), "Sprintf: more verbs than arguments")
			}
			a, at := f.expr(call.Args[next], e)
			if at != "string" {
				t.fail(call.Args[next].Pos(), "Sprintf %%s applied to %s (only strings)", at)
			}
			flush()
			parts = append(parts, paren(a))
			next++
		default:
			t.fail(call.Pos(), "Sprintf verb other than %%s in %q", format)
		}
	}
	flush()
	if next != len(call.Args) {
		t.fail(call.Pos(), "Sprintf: more arguments than verbs")
	}
	if len(parts) == 0 {
		return "[]"
	}
	return strings.Join(parts, " ++ ")
}

// constString: a string literal, or string literals joined by +
func constString(x ast.Expr) (string, bool) {
	switch x := unparen(x).(type) {
	case *ast.BasicLit:
		if x.Kind != token.STRING {
			return "", false
		}
		s, err := strconv.Unquote(x.Value)
		return s, err == nil
	case *ast.BinaryExpr:
		if x.Op != token.ADD {
			return "", false
		}
		a, ok1 := constString(x.X)
		b, ok2 := constString(x.Y)
		return a + b, ok1 && ok2
	}
	return "", false
}

func stripAddr(x ast.Expr) ast.Expr {
	if u, ok := unparen(x).(*ast.UnaryExpr); ok && u.Op == token.AND {
		return u.X
	}
	return x
}

func (f *fctx) builtin(call *ast.CallExpr, c *callee, e *env) (string, []string, ast.Expr) {
	t := f.t
	switch c.key {
	case "len":
		x, xt := f.expr(call.Args[0], e)
		if !strings.HasPrefix(t.under(xt), "[]") && xt != "string" {
			t.fail(call.Pos(), "len of %s", xt)
		}
		return "slice_len " + paren(x), []string{"int"}, nil
	case "append":
		x, xt := f.expr(call.Args[0], e)
		if !strings.HasPrefix(xt, "[]") {
			t.fail(call.Pos(), "append to %s", xt)
		}
		if call.Ellipsis.IsValid() {
			if len(call.Args) != 2 {
				t.fail(call.Pos(), "append(a, b...) with %d arguments", len(call.Args))
			}
			y, yt := f.expr(call.Args[1], e)
			if yt != xt {
				t.fail(call.Pos(), "append(%s, %s...)", xt, yt)
			}
			return fmt.Sprintf("slice_appendv %s %s", paren(x), paren(y)), []string{xt}, nil
		}
		term := x
		for _, a := range call.Args[1:] {
			y, yt := f.expr(a, e)
			term = fmt.Sprintf("slice_append1 %s %s", paren(term), paren(t.conv(a.Pos(), y, yt, xt[2:])))
		}
		return term, []string{xt}, nil
	case "make":
		ty := typeStr(call.Args[0])
		switch {
		case strings.HasPrefix(ty, "map["):
			return "[]", []string{ty}, nil
		case strings.HasPrefix(ty, "[]") && len(call.Args) >= 2:
			if lit, ok := unparen(call.Args[1]).(*ast.BasicLit); ok && lit.Value == "0" {
				for _, a := range call.Args[2:] {
					f.expr(a, e) // capacity: must be a pure expression, has no meaning for values
				}
				return "[]", []string{ty}, nil
			}
		}
		t.fail(call.Pos(), "make(%s, …) other than an empty slice or map", ty)
	case "delete":
		m, mt := f.expr(call.Args[0], e)
		kt, _, ok := mapTypes(mt)
		if !ok {
			t.fail(call.Pos(), "delete on %s", mt)
		}
		key, kty := f.expr(call.Args[1], e)
		return fmt.Sprintf("map_delete %s %s %s", t.eqb(call.Pos(), kt), paren(m), paren(t.conv(call.Pos(), key, kty, kt))), nil, call.Args[0]
	}
	t.fail(call.Pos(), "builtin %s", c.key)
	return "", nil, nil
}

// callStmt: a call as a statement of its own, its results bound to lhs (nil = dropped)
func (f *fctx) callStmt(call *ast.CallExpr, c *callee, lhs []ast.Expr, define bool, e *env, ind int, k cont) string {
	t := f.t
	g0 := len(f.guards)
	term, results, obj := f.callTerm(call, c, e)
	gs := f.takeGuards(g0)
	changes := c.kind == "mut" || (c.kind == "func" && c.fn.stateful) || (c.kind == "builtin" && c.key == "delete")
	panics := c.kind == "func" && c.fn.panics
	if (changes || panics) && len(gs) > 0 {
		t.fail(call.Pos(), "a call with effects and a possible panic of its arguments in one statement")
	}
	if changes && obj != nil && f.isState(f.rootVar(stripAddr(obj), e)) {
		f.sawWrite = true // the state (or a part of it) is replaced by the callee's result
	}
	if lhs == nil {
		for range results {
			lhs = append(lhs, &ast.Ident{Name: "_", NamePos: call.Pos()})
		}
		define = false
	}
	if len(lhs) != len(results) {
		t.fail(call.Pos(), "%d results bound to %d places", len(results), len(lhs))
	}
	return f.guarded(gs, ind, func(ind int) string {
		if !changes && !panics {
			if len(results) == 0 {
				return k(e, ind) // a pure call whose value is not used
			}
			if len(lhs) == 1 {
				line, e2 := f.assignTo(lhs[0], term, results[0], e, define)
				if line == "" {
					return k(e2, ind)
				}
				return sp(ind) + line + "\n" + k(e2, ind)
			}
			return f.bindResults(call.Pos(), lhs, term, results, define, e, ind, k)
		}
		// the updated object comes back first
		e1, objTmp := e.bind("obj", "")
		storeObj := func(e2 *env) (string, *env) {
			if !changes {
				return "", e2
			}
			if obj == nil {
				t.fail(call.Pos(), "internal: no object for a mutating call")
			}
			objT := f.typeOf(stripAddr(obj), e2)
			if objT == "" {
				_, objT = f.expr(stripAddr(obj), e2)
			}
			return sp(ind) + f.store(stripAddr(obj), objTmp, objT, e2) + "\n", e2
		}
		if panics {
			// match f … with Panicked s => Panicked <receiver with s stored> | Normal s r => … end
			if obj == nil || !isIdent(obj) || !f.isState(rootIdent(obj)) {
				t.fail(call.Pos(), "a call that can panic on anything but the state variable itself")
			}
			rc := f.recvCoq()
			inner := f.bindResults(call.Pos(), lhs, "res", results, define, e, ind+4, k)
			if len(results) == 0 {
				inner = k(e, ind+4)
			}
			if c.fn.stateful {
				f.sawWrite = true
			}
			return fmt.Sprintf("%smatch %s with\n%s| Panicked %s => %s\n%s| Normal %s res =>\n%s\n%send",
				sp(ind), term, sp(ind), rc, f.panicTerm(), sp(ind), rc, inner, sp(ind))
		}
		if len(results) == 0 {
			line, e2 := storeObjLine(f, obj, term, e, call)
			return sp(ind) + line + "\n" + k(e2, ind)
		}
		// let '(obj, r…) := term in store obj; bind r…
		var names []string
		direct := false
		if id, ok := unparen(stripAddr(obj)).(*ast.Ident); ok {
			if v, isVar := e.vars[id.Name]; isVar && v.alias == nil && (f.isState(id.Name) || !f.isRef(v.typ)) {
				objTmp, direct = v.coq, true
				if f.isState(id.Name) {
					f.sawWrite = true
				}
			}
		}
		names = append(names, objTmp)
		tmpE := e1
		var rnames []string
		for i := range results {
			var n string
			tmpE, n = tmpE.bind(fmt.Sprintf("r%d", i+1), results[i])
			rnames = append(rnames, n)
		}
		names = append(names, rnames...)
		out := fmt.Sprintf("%slet %s := %s in\n", sp(ind), pattern(names), term)
		e2 := tmpE
		if !direct {
			var line string
			line, e2 = storeObj(tmpE)
			out += line
		}
		return out + f.bindResults(call.Pos(), lhs, tuple(rnames), results, define, e2, ind, k)
	})
}

func isIdent(x ast.Expr) bool { _, ok := unparen(x).(*ast.Ident); return ok }

func storeObjLine(f *fctx, obj ast.Expr, term string, e *env, call *ast.CallExpr) (string, *env) {
	if obj == nil {
		f.t.fail(call.Pos(), "internal: no object for a mutating call")
	}
	o := stripAddr(obj)
	objT := f.typeOf(o, e)
	if objT == "" {
		_, objT = f.expr(o, e)
	}
	return f.store(o, term, objT, e), e
}

// rootVar: the variable an assignable path starts from (aliases followed)
func (f *fctx) rootVar(x ast.Expr, e *env) string {
	for {
		switch y := unparen(x).(type) {
		case *ast.Ident:
			if v, ok := e.vars[y.Name]; ok && v.alias != nil {
				x = v.alias
				continue
			}
			return y.Name
		case *ast.SelectorExpr:
			x = y.X
		case *ast.IndexExpr:
			x = y.X
		case *ast.StarExpr:
			x = y.X
		case *ast.UnaryExpr:
			x = y.X
		case *ast.CallExpr:
			if s, ok := unparen(y.Fun).(*ast.SelectorExpr); ok {
				x = s.X
				continue
			}
			return ""
		default:
			return ""
		}
	}
}

// ---------------------------------------------------------------- expressions

func bytesTerm(s string) string {
	if s == "" {
		return "[]"
	}
	var parts []string
	for _, b := range []byte(s) {
		parts = append(parts, strconv.Itoa(int(b)))
	}
	return "[" + strings.Join(parts, ";") + "]"
}

type assertCfg struct{ Pair, Val, Ok string }

func (f *fctx) assertion(pos token.Pos, from, to string) assertCfg {
	if sc, isSum := f.t.cfg.Sums[from]; isSum && strings.HasPrefix(to, "*") {
		for _, v := range sc.Variants {
			if v == to[1:] {
				return assertCfg{Val: sc.Coq + "_as_" + v, Ok: sc.Coq + "_is_" + v}
			}
		}
		f.t.fail(pos, "type assertion %s.(%s): not a variant of the sum", from, to)
	}
	key := "assert:" + from + "->" + to
	in, ok := f.t.cfg.Intrinsics[key]
	if !ok {
		f.t.fail(pos, "type assertion %s.(%s): no intrinsic %q", from, to, key)
	}
	f.t.usedIntr[key] = true
	parts := strings.Split(in.Coq, ",")
	a := assertCfg{}
	for _, p := range parts {
		kv := strings.SplitN(strings.TrimSpace(p), "=", 2)
		if len(kv) != 2 {
			continue
		}
		switch kv[0] {
		case "pair":
			a.Pair = kv[1]
		case "val":
			a.Val = kv[1]
		case "ok":
			a.Ok = kv[1]
		}
	}
	return a
}

func (f *fctx) expr(x ast.Expr, e *env) (string, string) {
	t := f.t
	switch x := x.(type) {
	case *ast.ParenExpr:
		return f.expr(x.X, e)
	case *ast.BasicLit:
		switch x.Kind {
		case token.INT:
			n, ok := new(big.Int).SetString(strings.ReplaceAll(x.Value, "_", ""), 0)
			if !ok {
				t.fail(x.Pos(), "integer literal %s", x.Value)
			}
			return n.String(), "untyped int"
		case token.STRING:
			s, err := strconv.Unquote(x.Value)
			if err != nil {
				t.fail(x.Pos(), "string literal %s", x.Value)
			}
			return bytesTerm(s), "string"
		}
		t.fail(x.Pos(), "literal %s", x.Value)
	case *ast.Ident:
		switch x.Name {
		case "true", "false":
			if _, shadow := e.vars[x.Name]; !shadow {
				return x.Name, "bool"
			}
		case "nil":
			return "", "untyped nil"
		}
		if v, ok := e.vars[x.Name]; ok {
			if v.alias != nil {
				term, _ := f.expr(v.alias, e)
				return term, v.typ
			}
			return v.coq, v.typ
		}
		if en, ok := t.enumOf[x.Name]; ok {
			return x.Name, en
		}
		if g := t.globals[x.Name]; g != nil {
			return t.useGlobal(g)
		}
		t.fail(x.Pos(), "identifier %s (not a local, a configured global or an enum constant)", x.Name)
	case *ast.SelectorExpr:
		if id, ok := x.X.(*ast.Ident); ok && t.imports[id.Name] {
			if _, shadow := e.vars[id.Name]; !shadow {
				key := id.Name + "." + x.Sel.Name
				if in, ok := t.cfg.Intrinsics[key]; ok && in.Kind == "const" {
					t.usedIntr[key] = true
					return in.Coq, in.Ret[0]
				}
				t.fail(x.Pos(), "%s: not a configured constant", key)
			}
		}
		xt, ty := f.expr(x.X, e)
		si := t.structOf(ty)
		if si == nil || si.cfg == nil {
			t.fail(x.Pos(), "field %s of %s, which is not a configured struct", x.Sel.Name, ty)
		}
		for _, fl := range si.kept {
			if fl.name == x.Sel.Name {
				return fmt.Sprintf("%s_%s %s", si.cfg.Coq, fl.name, paren(xt)), fl.typ
			}
		}
		t.fail(x.Pos(), "field %s.%s is not part of the record (configuration)", si.name, x.Sel.Name)
	case *ast.StarExpr:
		xt, ty := f.expr(x.X, e)
		if !strings.HasPrefix(ty, "*") {
			t.fail(x.Pos(), "dereference of %s", ty)
		}
		return xt, ty[1:]
	case *ast.CallExpr:
		c := f.resolve(x, e)
		if f.effectful(c) {
			t.fail(x.Pos(), "a call with effects (or a possible panic) nested in an expression: %s", exprText(x.Fun))
		}
		term, res, _ := f.callTerm(x, c, e)
		if len(res) != 1 {
			t.fail(x.Pos(), "call with %d results used as a value", len(res))
		}
		return term, res[0]
	case *ast.UnaryExpr:
		switch x.Op {
		case token.NOT:
			a, ty := f.expr(x.X, e)
			if ty != "bool" {
				t.fail(x.Pos(), "! on %s", ty)
			}
			return "negb " + paren(a), "bool"
		case token.SUB:
			a, ty := f.expr(x.X, e)
			if !isZ(ty) {
				t.fail(x.Pos(), "unary - on %s", ty)
			}
			return "- " + paren(a), ty
		case token.AND:
			a, ty := f.expr(x.X, e)
			if si := t.structOf(ty); si != nil && si.cfg != nil {
				return a, "*" + ty
			}
		}
		t.fail(x.Pos(), "unary %s", x.Op)
	case *ast.BinaryExpr:
		return f.binary(x, e)
	case *ast.TypeAssertExpr:
		if x.Type == nil {
			t.fail(x.Pos(), "type switch")
		}
		v, vt := f.expr(x.X, e)
		to := typeStr(x.Type)
		a := f.assertion(x.Pos(), vt, to)
		if a.Val == "" || a.Ok == "" {
			t.fail(x.Pos(), "single-value assertion %s.(%s): intrinsic gives no val/ok functions", vt, to)
		}
		f.guards = append(f.guards, fmt.Sprintf("negb (%s %s)", a.Ok, paren(v))) // panics when the dynamic type differs
		return fmt.Sprintf("%s %s", a.Val, paren(v)), to
	case *ast.IndexExpr:
		m, mt := f.expr(x.X, e)
		if u := t.under(mt); strings.HasPrefix(u, "[]") {
			// s[i] on a slice: panics when i is out of range
			idx, it := f.expr(x.Index, e)
			if !isZ(it) {
				t.fail(x.Index.Pos(), "slice index of type %s", it)
			}
			f.guards = append(f.guards, fmt.Sprintf("orb (%s <? 0) (slice_len %s <=? %s)", paren(idx), paren(m), paren(idx)))
			return fmt.Sprintf("nth (Z.to_nat %s) %s %s", paren(idx), paren(m), paren(t.zero(x.Pos(), strings.TrimPrefix(u[2:], "*")))), u[2:]
		}
		kt, vt, ok := mapTypes(mt)
		if !ok {
			t.fail(x.Pos(), "index into %s (only maps and slices)", mt)
		}
		key, kty := f.expr(x.Index, e)
		return fmt.Sprintf("map_index %s %s %s %s", t.eqb(x.Pos(), kt), paren(t.zero(x.Pos(), vt)), paren(m), paren(t.conv(x.Pos(), key, kty, kt))), vt
	case *ast.SliceExpr:
		if x.Slice3 {
			t.fail(x.Pos(), "3-index slice")
		}
		s, st := f.expr(x.X, e)
		if !strings.HasPrefix(st, "[]") {
			t.fail(x.Pos(), "slice of %s", st)
		}
		term := s
		// bounds: 0 <= low <= high <= len (cap is not modelled: reslicing beyond len is refused here)
		lo, hi := "0", fmt.Sprintf("slice_len %s", paren(s))
		if x.High != nil {
			h, ht := f.expr(x.High, e)
			if !isZ(ht) {
				t.fail(x.High.Pos(), "slice bound of type %s", ht)
			}
			f.guards = append(f.guards, fmt.Sprintf("%s <? %s", hi, h))
			hi = h
			term = fmt.Sprintf("slice_to %s %s", paren(term), paren(h))
		}
		if x.Low != nil {
			l, lt := f.expr(x.Low, e)
			if !isZ(lt) {
				t.fail(x.Low.Pos(), "slice bound of type %s", lt)
			}
			f.guards = append(f.guards, fmt.Sprintf("orb (%s <? 0) (%s <? %s)", l, hi, l))
			lo = l
			term = fmt.Sprintf("slice_from %s %s", paren(term), paren(l))
		}
		_ = lo
		return term, st
	case *ast.CompositeLit:
		return f.composite(x, e)
	}
	t.fail(x.Pos(), "expression %T", x)
	return "", ""
}

func (f *fctx) composite(x *ast.CompositeLit, e *env) (string, string) {
	t := f.t
	if x.Type == nil {
		t.fail(x.Pos(), "composite literal without a type")
	}
	ty := typeStr(x.Type)
	if strings.HasPrefix(ty, "[]") {
		var parts []string
		for _, el := range x.Elts {
			v, vt := f.expr(el, e)
			parts = append(parts, t.conv(el.Pos(), v, vt, ty[2:]))
		}
		return "[" + strings.Join(parts, "; ") + "]", ty
	}
	if strings.HasPrefix(ty, "map[") && len(x.Elts) == 0 {
		return "[]", ty
	}
	si := t.structOf(ty)
	if si == nil || si.cfg == nil {
		t.fail(x.Pos(), "composite literal of %s", ty)
	}
	vals := map[string]string{}
	ignored := map[string]bool{}
	if si.extern {
		for _, ig := range t.cfg.Externs[si.name].Ignore {
			ignored[ig] = true
		}
	}
	if !si.extern && si.cfg != nil {
		for _, ig := range si.cfg.Ignore {
			ignored[ig] = true
		}
	}
	for i, el := range x.Elts {
		if kv, ok := el.(*ast.KeyValueExpr); ok {
			name := kv.Key.(*ast.Ident).Name
			if ignored[name] {
				f.checkPure(kv.Value, e) // dropped field: its value must be free of effects
				continue
			}
			v, vt := f.expr(kv.Value, e)
			ft := ""
			for _, fl := range si.fields {
				if fl.name == name {
					ft = fl.typ
				}
			}
			vals[name] = t.conv(el.Pos(), v, vt, ft)
			continue
		}
		if len(x.Elts) != len(si.fields) || si.extern {
			t.fail(x.Pos(), "positional literal of %s with %d of %d fields", ty, len(x.Elts), len(si.fields))
		}
		v, vt := f.expr(el, e)
		vals[si.fields[i].name] = t.conv(el.Pos(), v, vt, si.fields[i].typ)
	}
	parts := []string{"mk_" + si.cfg.Coq}
	kept := map[string]bool{}
	for _, fl := range si.kept {
		kept[fl.name] = true
		if v, ok := vals[fl.name]; ok {
			parts = append(parts, paren(v))
		} else {
			parts = append(parts, paren(t.zero(x.Pos(), fl.typ)))
		}
	}
	for name := range vals {
		if !kept[name] {
			t.fail(x.Pos(), "literal sets field %s.%s, which is not part of the record", si.name, name)
		}
	}
	_ = ignored
	return strings.Join(parts, " "), ty
}

func unify(a, b string) (string, bool) {
	switch {
	case a == b:
		return a, true
	case a == "untyped int" && isZ(b):
		return b, true
	case b == "untyped int" && isZ(a):
		return a, true
	}
	return "", false
}

func (f *fctx) binary(x *ast.BinaryExpr, e *env) (string, string) {
	t := f.t
	switch x.Op {
	case token.LAND, token.LOR:
		a, at := f.expr(x.X, e)
		g0 := len(f.guards)
		b, bt := f.expr(x.Y, e)
		if len(f.guards) != g0 {
			// Go does not evaluate the right operand when the left one decides
			t.fail(x.Y.Pos(), "an operand that can panic on the right of %s", x.Op)
		}
		if at != "bool" || bt != "bool" {
			t.fail(x.Pos(), "%s on %s, %s", x.Op, at, bt)
		}
		fn := "andb"
		if x.Op == token.LOR {
			fn = "orb"
		}
		return fmt.Sprintf("%s %s %s", fn, paren(a), paren(b)), "bool"
	}
	a, at := f.expr(x.X, e)
	b, bt := f.expr(x.Y, e)
	if at == "untyped nil" || bt == "untyped nil" {
		v, vt := a, at
		if at == "untyped nil" {
			v, vt = b, bt
		}
		if _, _, isFn := funcSig(vt); isFn && fullFuncTypes && (x.Op == token.EQL || x.Op == token.NEQ) {
			isNil := fmt.Sprintf("match %s with None => true | Some _ => false end", v)
			if x.Op == token.EQL {
				return isNil, "bool"
			}
			return "negb (" + isNil + ")", "bool"
		}
		if vt != "error" || (x.Op != token.EQL && x.Op != token.NEQ) {
			t.fail(x.Pos(), "comparison of %s with nil", vt)
		}
		if x.Op == token.EQL {
			return "err_is_nil " + paren(v), "bool"
		}
		return "negb (err_is_nil " + paren(v) + ")", "bool"
	}
	ty, ok := unify(at, bt)
	if !ok {
		t.fail(x.Pos(), "operands of %s have Go types %s and %s", x.Op, at, bt)
	}
	switch x.Op {
	case token.EQL:
		return fmt.Sprintf("%s %s %s", t.eqb(x.Pos(), ty), paren(a), paren(b)), "bool"
	case token.NEQ:
		return fmt.Sprintf("negb (%s %s %s)", t.eqb(x.Pos(), ty), paren(a), paren(b)), "bool"
	}
	if !isZ(ty) {
		t.fail(x.Pos(), "%s on Go type %s", x.Op, ty)
	}
	pa, pb := paren(a), paren(b)
	switch x.Op {
	case token.ADD:
		return fmt.Sprintf("%s + %s", pa, pb), ty
	case token.SUB:
		return fmt.Sprintf("%s - %s", pa, pb), ty
	case token.MUL:
		return fmt.Sprintf("%s * %s", pa, pb), ty
	case token.QUO, token.REM:
		// Go: truncated division; panics when the divisor is zero
		if ty == "float64" {
			t.fail(x.Pos(), "%s on float64 (floats read as exact integers: only + - * and comparisons)", x.Op)
		}
		if n, isLit := new(big.Int).SetString(b, 10); !(isLit && n.Sign() != 0) {
			f.guards = append(f.guards, fmt.Sprintf("%s =? 0", pb))
		}
		if x.Op == token.QUO {
			return fmt.Sprintf("Z.quot %s %s", pa, pb), ty
		}
		return fmt.Sprintf("Z.rem %s %s", pa, pb), ty
	case token.LSS:
		return fmt.Sprintf("%s <? %s", pa, pb), "bool"
	case token.LEQ:
		return fmt.Sprintf("%s <=? %s", pa, pb), "bool"
	case token.GTR: // a > b  is  b < a (operands are free of effects)
		return fmt.Sprintf("%s <? %s", pb, pa), "bool"
	case token.GEQ:
		return fmt.Sprintf("%s <=? %s", pb, pa), "bool"
	}
	t.fail(x.Pos(), "operator %s", x.Op)
	return "", ""
}

// ---------------------------------------------------------------- go statements

// go func() { … }()  — the body becomes a definition of its own (<Func>_go: the state and
// the captured variables are its parameters), the statement appends the captured values to
// the list of started goroutines the function returns last.  Nothing is said about WHEN the
// body runs: that is the caller's (the model's) schedule.
func (f *fctx) goStmt(s *ast.GoStmt, e *env, ind int, k cont) string {
	t := f.t
	if !t.cfg.GoStatements {
		t.fail(s.Pos(), "go statement (opt-in: \"go_statements\" of the configuration)")
	}
	if len(f.loop) > 0 {
		t.fail(s.Pos(), "go statement inside a loop")
	}
	if f.fi.synth {
		t.fail(s.Pos(), "go statement inside the body of a goroutine")
	}
	lit, ok := s.Call.Fun.(*ast.FuncLit)
	if !ok || len(s.Call.Args) != 0 || (lit.Type.Params != nil && len(lit.Type.Params.List) != 0) || (lit.Type.Results != nil && len(lit.Type.Results.List) != 0) {
		t.fail(s.Pos(), "go statement other than `go func() { … }()`")
	}
	g := t.spawned[s.Pos()]
	if g == nil {
		// the variables of the enclosing function the body mentions
		seen := map[string]bool{}
		var names []string
		ast.Inspect(lit.Body, func(n ast.Node) bool {
			id, isId := n.(*ast.Ident)
			if !isId || id.Obj == nil || id.Obj.Kind != ast.Var || id.Obj.Pos() >= lit.Pos() || seen[id.Name] {
				return true
			}
			if _, isVar := e.vars[id.Name]; !isVar {
				t.fail(id.Pos(), "the goroutine mentions %s, which is not a variable of the enclosing function", id.Name)
			}
			seen[id.Name] = true
			if !f.isState(id.Name) {
				names = append(names, id.Name)
			}
			return true
		})
		sort.SliceStable(names, func(i, j int) bool { return e.vars[names[i]].seq < e.vars[names[j]].seq })
		// a closure shares its variables: reading them as the values at the go statement is
		// right only if nobody assigns them afterwards (neither the goroutine nor the function)
		assignedIn := func(root ast.Node, from token.Pos) map[string]token.Pos {
			m := map[string]token.Pos{}
			ast.Inspect(root, func(n ast.Node) bool {
				switch n := n.(type) {
				case *ast.AssignStmt:
					if n.Pos() >= from {
						for _, l := range n.Lhs {
							if id, ok := unparen(l).(*ast.Ident); ok && n.Tok == token.DEFINE && id.Obj != nil && id.Obj.Pos() == id.Pos() {
								continue // a new variable
							}
							if r := rootIdent(l); r != "" {
								m[r] = n.Pos()
							}
						}
					}
				case *ast.IncDecStmt:
					if n.Pos() >= from {
						if r := rootIdent(n.X); r != "" {
							m[r] = n.Pos()
						}
					}
				case *ast.UnaryExpr:
					if n.Op == token.AND && n.Pos() >= from {
						if r := rootIdent(n.X); r != "" {
							m[r] = n.Pos()
						}
					}
				}
				return true
			})
			return m
		}
		later := assignedIn(f.fi.decl.Body, s.Pos())
		for _, n := range names {
			v := e.vars[n]
			if v.alias != nil || f.isRef(v.typ) {
				t.fail(s.Pos(), "the goroutine captures %s of reference type %s / an alias (sharing is not modelled)", n, v.typ)
			}
			if p, bad := later[n]; bad {
				t.fail(p, "%s is captured by the goroutine started at line %d and assigned afterwards", n, t.fset.Position(s.Pos()).Line)
			}
		}
		name := f.fi.coq + "_go"
		for _, o := range t.spawned {
			if o.coq == name {
				t.fail(s.Pos(), "a second go statement in %s", f.fi.coq)
			}
		}
		g = &funcInfo{synth: true, coq: name, spawnedBy: f.fi.coq, captured: names}
		g.cfg = FuncCfg{Recv: f.fi.cfg.Recv, Name: name, Coq: name, State: f.fi.cfg.State}
		g.decl = &ast.FuncDecl{Recv: f.fi.decl.Recv, Name: &ast.Ident{Name: name, NamePos: s.Pos()},
			Type: &ast.FuncType{Func: s.Pos(), Params: &ast.FieldList{}}, Body: lit.Body}
		if f.fi.cfg.State != "" {
			for _, p := range f.fi.params {
				if p.name == f.fi.cfg.State {
					g.params = append(g.params, p)
				}
			}
		}
		for _, n := range names {
			g.params = append(g.params, fieldInfo{n, e.vars[n].typ})
		}
		t.reserved[name] = true
		t.reserved[name+"_args"] = true
		t.reserved["mk_"+name+"_args"] = true
		t.spawned[s.Pos()] = g
		// the record of captured values
		var b strings.Builder
		fmt.Fprintf(&b, "(* the values captured by the goroutine %s starts\n   %s *)\nRecord %s_args := mk_%s_args {\n", f.fi.coq, t.srcInfo(s.Pos(), s.End()), name, name)
		for i, n := range names {
			sep := ";"
			if i == len(names)-1 {
				sep = ""
			}
			fmt.Fprintf(&b, "  %s_args_%s : %s%s\n", name, n, t.coqType(s.Pos(), e.vars[n].typ), sep)
			t.reserved[name+"_args_"+n] = true
		}
		b.WriteString("}.\n")
		t.out = append(t.out, b.String())
		t.translateFunc(g, s.Pos())
		if g.emits || g.spawns {
			t.fail(s.Pos(), "a goroutine that emits events / starts goroutines")
		}
		t.spawnOrder = append(t.spawnOrder, g)
	}
	if f.emits || f.sawEmit {
		t.fail(s.Pos(), "go statement in a function that emits events")
	}
	f.sawSpawn = true
	f.spawnT = g.coq + "_args"
	parts := []string{"mk_" + g.coq + "_args"}
	for _, n := range g.captured {
		parts = append(parts, paren(e.vars[n].coq))
	}
	return fmt.Sprintf("%slet spawned_ := spawned_ ++ [%s] in\n", sp(ind), strings.Join(parts, " ")) + k(e, ind)
}

// otherMention: a mention of the variable of [id], at a source position in (from, to), that
// is not the x of `x.(*T).field`
func (f *fctx) otherMention(id *ast.Ident, from, to token.Pos) token.Pos {
	found := token.NoPos
	allowed := map[*ast.Ident]bool{}
	ast.Inspect(f.fi.decl.Body, func(n ast.Node) bool {
		if sel, ok := n.(*ast.SelectorExpr); ok {
			if ta, ok := unparen(sel.X).(*ast.TypeAssertExpr); ok && ta.Type != nil {
				if x, ok := unparen(ta.X).(*ast.Ident); ok {
					allowed[x] = true
				}
			}
		}
		if x, ok := n.(*ast.Ident); ok && x.Name == id.Name && x.Obj == id.Obj && !allowed[x] &&
			x.Pos() > from && x.Pos() < to && !found.IsValid() {
			found = x.Pos()
		}
		return true
	})
	return found
}

// ---------------------------------------------------------------- switch

// switch tag { case a, b: …  case c: …  default: … }  — the tag is evaluated once, the cases
// are compared in order with the tag type's equality; no fallthrough, no init statement, no
// tagless switch; a `break` inside is refused (BranchStmt outside a loop).
func (f *fctx) switchStmt(s *ast.SwitchStmt, e *env, ind int, k cont) string {
	t := f.t
	if s.Init != nil || s.Tag == nil {
		t.fail(s.Pos(), "switch with an init statement / without a tag")
	}
	g0 := len(f.guards)
	tag, tagT := f.expr(s.Tag, e)
	gs := f.takeGuards(g0)
	eq := t.eqb(s.Tag.Pos(), tagT)
	type clause struct {
		conds []string
		body  []ast.Stmt
	}
	var clauses []clause
	var def *clause
	for _, st := range s.Body.List {
		cc := st.(*ast.CaseClause)
		for _, b := range cc.Body {
			if br, isBr := b.(*ast.BranchStmt); isBr && br.Tok == token.FALLTHROUGH {
				t.fail(br.Pos(), "fallthrough")
			}
		}
		if cc.List == nil {
			if def != nil {
				t.fail(cc.Pos(), "two default clauses")
			}
			def = &clause{body: cc.Body}
			continue
		}
		c := clause{body: cc.Body}
		for _, x := range cc.List {
			g1 := len(f.guards)
			v, vt := f.expr(x, e)
			if len(f.guards) != g1 {
				t.fail(x.Pos(), "a case expression that can panic")
			}
			ty, ok := unify(tagT, vt)
			if !ok || ty != defaultType(tagT) && ty != tagT {
				t.fail(x.Pos(), "case of Go type %s in a switch on %s", vt, tagT)
			}
			c.conds = append(c.conds, v)
		}
		clauses = append(clauses, c)
	}
	after := func(inner *env, ind2 int) string { return k(mergeFresh(e, inner), ind2) }
	return f.guarded(gs, ind, func(ind int) string {
		e1, tagName := e.bind("tag_", tagT)
		var build func(i int, ind int) string
		build = func(i int, ind int) string {
			if i == len(clauses) {
				if def != nil {
					return f.block(def.body, e1, ind, after)
				}
				return k(e, ind)
			}
			c := clauses[i]
			cond := fmt.Sprintf("%s %s %s", eq, tagName, paren(c.conds[0]))
			for _, v := range c.conds[1:] {
				cond = fmt.Sprintf("orb (%s) (%s %s %s)", cond, eq, tagName, paren(v))
			}
			return fmt.Sprintf("%sif %s then\n%s\n%selse\n%s", sp(ind), cond, f.block(c.body, e1, ind+2, after), sp(ind), build(i+1, ind+2))
		}
		return fmt.Sprintf("%slet %s := %s in\n", sp(ind), tagName, tag) + build(0, ind)
	})
}
