#!/usr/bin/env python3
"""Regenerates MANIFEST.json from props.json (single source for the per-property text)."""
import json, os
V = os.path.dirname(os.path.abspath(__file__))
claimed = [l.strip() for l in open(os.path.join(V, "claimed.txt")) if l.strip() and not l.startswith("#")]
props = {p: json.load(open(os.path.join(V, "props", p + ".json"))) for p in claimed}
allp = [json.loads(l)["id"] for l in open(os.path.join(V, "properties.jsonl"))]
na = json.load(open(os.path.join(V, "not_applicable.json"))) if os.path.exists(os.path.join(V, "not_applicable.json")) else {}
checks = []
for pid in allp:
    if pid not in props:
        continue
    c = props[pid]
    checks.append({
        "property_id": pid,
        "quick_cmd": "./check %s --tier quick" % pid,
        "thorough_cmd": "./check %s --tier thorough" % pid,
        "evidence_file": "/verif/evidence/%s.json" % pid,
        "replay_cmd_template": "./check %s --replay {path}" % pid,
        "engine": "coq-proof+correspondence",
        "level_claimed": {"category": c.get("level", "proof"),
                          "text": c.get("level_text", "Coq theorems over a hand-written Gallina model (all inputs/histories), model tied to /repo by a differential correspondence check run on every invocation, plus an independent property monitor over implementation traces"),
                          "design_ref": "DESIGN.md section 5 " + pid},
        "level_note": c.get("level_note", "trusted: Coq kernel, the hand-written model's faithfulness as far as the correspondence cases exercise it, harness+monitor code; see evidence trusted_base"),
        "technique": c.get("technique", "machine-checked proof in Coq 8.16 (induction/invariants over a Gallina model) + model-vs-code correspondence by vm_compute on harness cases"),
    })
m = {
    "version": 1,
    "setup_cmd": "make -C /verif setup",
    "hooks": {
        "guard": "verif (Go build tag)",
        "enable": "go build -tags verif (harness module /verif/harness with replace directives to /repo/proxy/src/...)",
        "baseline_off_cmd": "cd /verif && ./baseline_off.sh",
        "source_commits": json.load(open(os.path.join(V, "hook_commits.json"))) if os.path.exists(os.path.join(V, "hook_commits.json")) else [],
        "add_only": True,
    },
    "engines": [{"name": "coq-proof+correspondence", "path": "/verif/check",
                 "serves_properties": [c["property_id"] for c in checks],
                 "kind_free_text": "Coq 8.16.1 development under /verif/theories (Model/Proofs/Property per property), Go/Python harness executing the implementation, coqc evaluating the model on the same cases"}],
    "checks": checks,
    "not_applicable": [{"property_id": p, "reason": na.get(p, "check not built yet in this session (work in progress; see DESIGN.md section 9)")} for p in allp if p not in props],
    "notes": "see DESIGN.md; known findings in known_findings.json",
}
json.dump(m, open(os.path.join(V, "MANIFEST.json"), "w"), indent=1)
print("checks:", len(checks), "not_applicable:", len(m["not_applicable"]))
