#!/usr/bin/env python3
"""add_fixed.py <fid> <Cxx> <signature> <commit-subject-fragment> <what failed>"""
import json, subprocess, sys
fid, prop, sig, frag, what = sys.argv[1:6]
out = subprocess.run(['git', '-C', '/repo', 'log', '--format=%h %s'], capture_output=True, text=True).stdout
sha = [l.split()[0] for l in out.split('\n') if frag in l][0]
kf = json.load(open('/verif/known_findings.json'))
kf = [k for k in kf if k['id'] != fid]
kf.append({"id": fid, "property": prop, "status": "fixed", "commit": sha, "signature": sig,
           "what_fails": "fixed: property=%s %s %s" % (prop, sha, what)})
json.dump(kf, open('/verif/known_findings.json', 'w'), indent=1)
print(fid, sha)
