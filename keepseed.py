#!/usr/bin/env python3
"""keepseed.py <src dir> <seed id> <property> <needs> <detected_by> <ran>  -> /verif/seeded/<seed id>/"""
import json, os, shutil, sys
src, sid, prop, needs, det, ran = sys.argv[1:7]
dst = os.path.join('/verif/seeded', sid)
os.makedirs(dst, exist_ok=True)
for f in os.listdir(src):
    shutil.copy(os.path.join(src, f), os.path.join(dst, f))
json.dump({"id": sid, "breaks_property": prop, "needs_to_manifest": needs, "detected_by": det,
           "confirmed": ran}, open(os.path.join(dst, 'meta.json'), 'w'), indent=1)
print("kept", dst, os.listdir(dst))
