"""Shared plumbing of the Python harness (mirror of harness/common/common.go).

A harness script generates cases from one PRNG state (-seed / VERIF_SEED),
executes them on the implementation under $VERIF_REPO, runs the property
monitor over what the implementation did, and writes

  <out>/<suite>_NNN.v    shards of cases as Coq terms (inputs + observed outputs);
                         coqc evaluates the model on them with vm_compute
  <out>/<suite>.jsonl    the same cases as JSON (evidence, replay files)
  <out>/summary.json     counts, distribution, samples, monitor hits

File layout, header lines, `cases` / `M` / `Bad` definitions and the keys of
summary.json are exactly those written by the Go package.
"""
import argparse
import hashlib
import json
import os

MASK = (1 << 64) - 1


# ---------------------------------------------------------------- PRNG (splitmix64, as in common.go)

class Rng:
    def __init__(self, seed):
        self.s = (seed * 0x9E3779B97F4A7C15 + 0x1234567) & MASK

    def next(self):
        self.s = (self.s + 0x9E3779B97F4A7C15) & MASK
        z = self.s
        z = ((z ^ (z >> 30)) * 0xBF58476D1CE4E5B9) & MASK
        z = ((z ^ (z >> 27)) * 0x94D049BB133111EB) & MASK
        return z ^ (z >> 31)

    def intn(self, n):
        if n <= 0:
            return 0
        return self.next() % n

    def range(self, lo, hi):  # inclusive
        return lo + self.intn(hi - lo + 1)

    def bool(self):
        return self.next() & 1 == 1

    def chance(self, num, den):
        return self.intn(den) < num

    def pick(self, xs):
        return xs[self.intn(len(xs))]

    def fork(self, tag):
        return Rng(self.next() ^ ((tag * 0xD6E8FEB86659FD93) & MASK))


# ---------------------------------------------------------------- Coq terms

def Z(i):
    return "(%d)" % i if i < 0 else "%d" % i


def N(i):
    return "%d%%N" % i


def Nat(i):
    return "%d%%nat" % i


def B(b):
    return "true" if b else "false"


def List(items):
    return "[" + "; ".join(items) + "]"


def Tuple(*items):
    return "(" + ", ".join(items) + ")"


def Some(x):
    return "(Some " + x + ")"


def OptZ(p):
    return "None" if p is None else Some(Z(p))


def OptB(p):
    return "None" if p is None else Some(B(p))


def ZList(xs):
    return List([Z(x) for x in xs])


def Bytes(s):
    if isinstance(s, str):
        s = s.encode()
    return List([str(c) for c in s])


def MapList(xs, f):
    return List([f(x) for x in xs])


# ---------------------------------------------------------------- output

def _dumps(o):
    return json.dumps(o, sort_keys=True, separators=(",", ":"), default=str)


class _Suite:
    def __init__(self, name, path, header, case_type, run_fn):
        self.name = name
        self.coq = []
        self.f = open(path, "w")
        self.n = 0
        self.header = header
        self.case_type = case_type
        self.run_fn = run_fn


class Out:
    def __init__(self, prop, argv=None):
        seed_def = 1
        try:
            seed_def = int(os.environ.get("VERIF_SEED", "") or 1)
        except ValueError:
            pass
        ap = argparse.ArgumentParser()
        ap.add_argument("-seed", type=int, default=seed_def)
        ap.add_argument("-tier", default=os.environ.get("VERIF_TIER") or "quick")
        ap.add_argument("-out", default=".")
        ap.add_argument("-replay", default="")
        a = ap.parse_args(argv)
        os.makedirs(a.out, exist_ok=True)
        self.prop = prop
        self.seed = a.seed
        self.tier = a.tier
        self.dir = a.out
        self.replay = a.replay
        self.shard_size = 250
        self.rng = Rng(a.seed)
        self.suites = {}
        self.order = []
        self.seen = set()
        self.evaluations = 0
        self.nontrivial = 0
        self.dist = {}
        self.samples = []
        self.hits = []
        self.mon_checked = 0
        self.rule_text = ""
        self.notes = []
        self.exhaustive_flag = False

    def rule(self, s):
        self.rule_text = s

    def note(self, s):
        self.notes.append(s)

    def exhaustive(self, b):
        self.exhaustive_flag = bool(b)

    def count(self, key, n=1):
        self.dist[key] = self.dist.get(key, 0) + n

    def thorough(self):
        return self.tier == "thorough"

    def search(self):
        return self.tier == "search"

    def scale(self, q, t, s):
        return {"thorough": t, "search": s}.get(self.tier, q)

    def declare_suite(self, name, requires, case_type, run_fn):
        self.suites[name] = _Suite(name, os.path.join(self.dir, name + ".jsonl"), requires, case_type, run_fn)
        self.order.append(name)

    def case(self, suite, coq, js, nontrivial):
        s = self.suites.get(suite)
        if s is None:
            raise RuntimeError("undeclared suite " + suite)
        idx = s.n
        s.n += 1
        self.evaluations += 1
        k = hashlib.sha256((suite + "\x00" + coq).encode()).digest()[:12]
        if k not in self.seen:
            self.seen.add(k)
            if nontrivial:
                self.nontrivial += 1
        if not self.search():
            s.coq.append("(" + N(idx) + ", " + coq + ")")
            s.f.write(_dumps({"suite": suite, "index": idx, "case": js}))
            s.f.write("\n")
        if len(self.samples) < 3 and nontrivial:
            self.samples.append({"suite": suite, "index": idx, "case": js})
        return idx

    def monitor_checked(self, n=1):
        self.mon_checked += n

    def hit(self, suite, index, signature, demanded, observed, case):
        self.hits.append({"suite": suite, "index": index, "signature": signature,
                          "demanded": demanded, "observed": observed, "case": case,
                          "size": len(_dumps(case))})

    def finish(self):
        shards = {}
        for name in self.order:
            s = self.suites[name]
            s.f.close()
            size = self.shard_size
            n = (len(s.coq) + 31) // 32          # at most 32 shards per suite
            if n > size:
                size = n
            k = 0
            for i in range(0, len(s.coq), size):
                fn = "%s_%03d.v" % (name, k)
                k += 1
                with open(os.path.join(self.dir, fn), "w") as f:
                    f.write("From Coq Require Import List ZArith NArith Bool.\n")
                    f.write("From Verif Require Import Lib.Corr.\n")
                    f.write(s.header + "\n")
                    f.write("Import ListNotations.\nOpen Scope Z_scope.\n")
                    f.write("Definition cases : list (N * " + s.case_type + ") := [\n")
                    f.write(";\n".join(s.coq[i:i + size]))
                    f.write("\n].\n")
                    f.write("Definition M := Eval vm_compute in mismatches " + s.run_fn + " cases.\n")
                    f.write("Definition Bad := Eval vm_compute in map fst M.\n")
                    f.write("Print Bad.\nPrint M.\n")
                shards.setdefault(name, []).append(fn)
        # keep the smallest hit per signature first (stable)
        self.hits.sort(key=lambda h: (h["signature"], h["size"]))
        hit_count = {}
        kept = []
        for h in self.hits:
            hit_count[h["signature"]] = hit_count.get(h["signature"], 0) + 1
            if hit_count[h["signature"]] <= 3:
                kept.append(h)
        summ = {
            "property": self.prop, "seed": self.seed, "tier": self.tier,
            "evaluations": self.evaluations, "distinct_nontrivial": self.nontrivial,
            "rule": self.rule_text, "samples": self.samples, "distribution": self.dist,
            "suites": {n: self.suites[n].n for n in self.order}, "shards": shards,
            "notes": self.notes, "exhaustive": self.exhaustive_flag,
            "monitor": {"checked": self.mon_checked, "hit_counts": hit_count, "hits": kept},
        }
        with open(os.path.join(self.dir, "summary.json"), "w") as f:
            json.dump(summ, f, indent=1, default=str)

    def replay_case(self):
        """(suite, case object) of the replay file written by ./check, or None."""
        if not self.replay:
            return None
        r = json.load(open(self.replay))
        return r.get("suite"), r.get("case")
