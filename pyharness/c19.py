#!/usr/bin/env python3
"""C19 harness: drives the REAL Python interceptor modules of $VERIF_REPO

  fail_safe.py, traffic_filter.py, configuration.py, hooks/requests.py
  (+ the function _load_fail_safe of lunar_interceptor/__init__.py)

with a patched clock (time() -> exact rational seconds) and a patched resolver
(socket.gethostbyname -> oracle).  `requests` and `yarl` are not installed: the
package __init__ files are never executed (stub packages with the real
__path__), and two small stand-in modules `requests` / `yarl` provide exactly
what hooks/requests.py touches (Session.request, ConnectionError, URL).

Suites (same case layout as the Go harnesses, see pyharness/common.py):
  failsafe  raw operations on a FailSafe object (constructed directly or through
            the environment -> FailSafeConfig -> _load_fail_safe path)
  filter    sequences of TrafficFilter.is_allowed queries on one filter object
  hook      application calls through RequestsHook._hook_module() with a scripted
            transport
  overlap   several `with fail_safe:` blocks open at once on ONE FailSafe object:
            __enter__ / state_ok / validate_headers / __exit__ of different calls
            executed on the same instance in every interleaving (2 calls) or a
            sampled one (3 calls); observed after every method call: its result,
            what state_ok answers, and the tolerance (errors until the circuit
            opens), both probed on a copy

The monitor restates the property over what the implementation did; it shares
no code with the model and uses its own failure counter and integer CIDR
arithmetic.
"""
import ast
import copy
import importlib
import ipaddress  # noqa: F401  (imported by traffic_filter; make sure it is the stdlib one)
import itertools
import logging
import os
import sys
import types
from fractions import Fraction
from urllib.parse import urlsplit, urlunsplit

sys.dont_write_bytecode = True          # never write __pycache__ into the tree under check
sys.path.insert(0, os.path.dirname(os.path.abspath(__file__)))
import common as c  # noqa: E402

REPO = os.environ.get("VERIF_REPO", "/repo")
SRC = os.path.join(REPO, "interceptors/lunar-py-interceptor/lunar_interceptor/src")
PKG = os.path.join(SRC, "lunar_interceptor")

LOG = logging.getLogger("verif-c19")
LOG.addHandler(logging.NullHandler())
LOG.propagate = False
LOG.setLevel(logging.CRITICAL)
logging.disable(logging.CRITICAL)       # load_env_value logs through the root logger


# =============================================================================
# loading the code under check
# =============================================================================

def _stub_pkg(name, path):
    m = types.ModuleType(name)
    m.__path__ = [path]
    m.__package__ = name
    sys.modules[name] = m


class _URL:
    """Stand-in for yarl.URL: only what hooks/requests.py and hooks/helpers.py use."""
    _DEF = {"http": 80, "https": 443}

    def __init__(self, u):
        self._s = urlsplit(str(u))

    @property
    def host(self):
        return self._s.hostname

    @property
    def scheme(self):
        return self._s.scheme

    @property
    def port(self):
        p = self._s.port
        return self._DEF.get(self._s.scheme) if p is None else p

    def is_default_port(self):
        return self._s.port is None or self._s.port == self._DEF.get(self._s.scheme)

    def _with(self, scheme=None, host=None, port=None):
        s = self._s
        h = s.hostname if host is None else host
        p = s.port if port is None else port
        if h and ":" in h:
            h = "[" + h + "]"
        netloc = (h or "") + (":%d" % p if p is not None else "")
        return _URL(urlunsplit((scheme or s.scheme, netloc, s.path, s.query, s.fragment)))

    def with_scheme(self, x):
        return self._with(scheme=x)

    def with_host(self, x):
        return self._with(host=x)

    def with_port(self, x):
        return self._with(port=x)

    def __str__(self):
        return urlunsplit(self._s)


class _ConnectionError(Exception):      # stand-in for requests.ConnectionError
    pass


class _Response:
    def __init__(self, src, headers=None):
        self.src = src
        self.headers = dict(headers or {})
        self.status_code = 200
        self.content = b"{}"


class _Transport:
    """What requests.Session.request does in the harness: records where the call
    went and plays the scripted gateway outcome."""
    GW = "http://lunar-proxy.verif:8000"

    def __init__(self):
        self.calls = []
        self.outcome = "ok"

    def __call__(self, sess, method, url, headers=None, *a, **k):
        gw = str(url).startswith(self.GW)
        self.calls.append("gw" if gw else "direct")
        if gw:
            o = self.outcome
            if o == "conn":
                raise _ConnectionError("connection refused")
            if o == "hdr":
                return _Response("gw", {"x-lunar-error": _err_code(len(self.calls))})
            if o == "other":
                raise AppError("raised by the transport, not a gateway error")
            return _Response("gw")
        return _Response("direct")


TRANSPORT = _Transport()


class _Session:
    def request(self, method, url, headers=None, *a, **k):
        return TRANSPORT(self, method, url, headers, *a, **k)


# x-lunar-error values the gateway can send: the five documented codes and ones the
# interceptor has no message for (haproxy answers 10 while shutting down; empty / non-numeric
# values from a newer or misbehaving gateway).  Any present value is a gateway failure.
_ERR_CODES = ["3", "10", "1", "", "5", "abc", "2", "0", "4", "7"]


def _err_code(i):
    return _ERR_CODES[i % len(_ERR_CODES)]


class AppError(Exception):
    pass


class AppBaseError(BaseException):
    pass


class Handled(Exception):
    pass


class HandledSub(Handled):
    pass


def load():
    _stub_pkg("lunar_interceptor", PKG)
    _stub_pkg("lunar_interceptor.interceptor", os.path.join(PKG, "interceptor"))
    _stub_pkg("lunar_interceptor.interceptor.hooks", os.path.join(PKG, "interceptor", "hooks"))
    y = types.ModuleType("yarl")
    y.URL = _URL
    sys.modules["yarl"] = y
    r = types.ModuleType("requests")
    r.ConnectionError = _ConnectionError
    r.Session = _Session
    r.Response = _Response
    r.models = types.SimpleNamespace(CaseInsensitiveDict=dict)
    r.sessions = types.SimpleNamespace(Session=_Session)
    sys.modules["requests"] = r
    mods = types.SimpleNamespace()
    mods.fs = importlib.import_module("lunar_interceptor.interceptor.fail_safe")
    mods.tf = importlib.import_module("lunar_interceptor.interceptor.traffic_filter")
    mods.cfg = importlib.import_module("lunar_interceptor.interceptor.configuration")
    mods.hook = importlib.import_module("lunar_interceptor.interceptor.hooks.requests")
    for m in (mods.fs, mods.tf, mods.cfg, mods.hook):
        assert os.path.abspath(m.__file__).startswith(os.path.abspath(SRC)), m.__file__
    # the function that wires the configuration into FailSafe (top-level __init__.py,
    # which cannot be imported: it installs the hooks on import)
    tree = ast.parse(open(os.path.join(PKG, "__init__.py")).read())
    fn = [n for n in tree.body if isinstance(n, ast.FunctionDef) and n.name == "_load_fail_safe"]
    assert len(fn) == 1, "_load_fail_safe not found"
    mods.load_fail_safe_code = compile(ast.Module(body=fn, type_ignores=[]), os.path.join(PKG, "__init__.py"), "exec")
    return mods


M = load()

# ---- clock (exact rationals: ms / 1000 seconds) and resolver oracle
NOW = [0]
M.fs.time = lambda: Fraction(NOW[0], 1000)

RESOLVER = {}          # host string -> ("quad", "a.b.c.d") | ("fail",) | ("invalid",)


def _gethostbyname(h):
    r = RESOLVER.get(h, ("fail",))
    if r[0] == "quad":
        return r[1]
    if r[0] == "invalid":
        # what CPython raises for an empty / over-long label (before any network I/O)
        raise UnicodeError("encoding with 'idna' codec failed (UnicodeError: label empty or too long)")
    import socket
    raise socket.gaierror(-2, "Name or service not known")


M.tf.gethostbyname = _gethostbyname

ENV_ATTEMPTS = "LUNAR_ENTER_COOLDOWN_AFTER_ATTEMPTS"
ENV_SECS = "LUNAR_EXIT_COOLDOWN_AFTER_SEC"


_ENV_CACHE = {}      # (attempts, secs) -> namespace holding the configuration read under that environment


def build_failsafe(ctor):
    """ctor ={"mode": "direct", "cooldown_time": int|None, "max_errors_allowed": int|None}
            | {"mode": "env", "attempts": str|None, "secs": str|None}"""
    if ctor["mode"] == "direct":
        f = M.fs.FailSafe(cooldown_time=ctor["cooldown_time"], max_errors_allowed=ctor["max_errors_allowed"],
                          logger=LOG, handle_on=(M.fs.ProxyErrorException,))
    else:
        key = (ctor["attempts"], ctor["secs"])
        ns = _ENV_CACHE.get(key)
        if ns is None:
            for k, v in ((ENV_ATTEMPTS, ctor["attempts"]), (ENV_SECS, ctor["secs"])):
                if v is None:
                    os.environ.pop(k, None)
                else:
                    os.environ[k] = v
            importlib.reload(M.cfg)      # the dataclass defaults read the environment at class creation
            ns = {"interceptor_config": types.SimpleNamespace(fail_safe_config=M.cfg.FailSafeConfig()),
                  "FailSafe": M.fs.FailSafe, "ProxyErrorException": M.fs.ProxyErrorException, "_LOGGER": LOG}
            exec(M.load_fail_safe_code, ns)
            os.environ.pop(ENV_ATTEMPTS, None)
            os.environ.pop(ENV_SECS, None)
            _ENV_CACHE[key] = ns
        f = ns["_load_fail_safe"]()      # a fresh FailSafe built from the configuration read under that environment
    return f


def env_int(s):
    if s is None:
        return None
    try:
        return int(s)
    except ValueError:
        return None


def configured(ctor):
    """(n, c) the caller configured, README defaults (5 attempts, 10 s) when not configured."""
    if ctor["mode"] == "direct":
        n, cd = ctor["max_errors_allowed"], ctor["cooldown_time"]
    else:
        n, cd = env_int(ctor["attempts"]), env_int(ctor["secs"])
    return (n if n else 5), (cd if cd else 10)


def coq_ctor(ctor):
    if ctor["mode"] == "direct":
        return "(CDirect %s %s)" % (c.OptZ(ctor["cooldown_time"]), c.OptZ(ctor["max_errors_allowed"]))
    return "(CEnv %s %s)" % (c.OptZ(env_int(ctor["attempts"])), c.OptZ(env_int(ctor["secs"])))


# =============================================================================
# host vocabulary (the model only sees the constructor and the index)
# =============================================================================

NAMES = ["api.example.com", "blocked.example.com", "internal.corp", "localhost", "db",
         "my-service.local", "httpbin.org", "a1.b2.c3.io"]
JUNK = ["bad host!", "https://www.example.com", "example.com:443", "192.125", "under_score.example.com",
        " space.example.com", "a..b", "", "x" * 64 + ".com", "None"]
IPV6 = ["::1", "fe80::1", "2001:db8::1", "::ffff:10.0.0.1", "fe80::1%eth0", "::"]


def host_str(h):
    k = h[0]
    if k == "v4":
        return "%d.%d.%d.%d" % tuple(h[1:5])
    if k == "v6":
        return IPV6[h[1]]
    if k == "name":
        return NAMES[h[1]]
    return JUNK[h[1]]


def host_coq(h):
    k = h[0]
    if k == "v4":
        return "(IPv4 %s %s %s %s)" % tuple(c.Z(x) for x in h[1:5])
    return "(%s %d)" % ({"v6": "IPv6", "name": "Name", "junk": "Junk"}[k], h[1])


def res_coq(r):
    if r[0] == "quad":
        return "(RQuad %d %d %d %d)" % tuple(int(x) for x in r[1].split("."))
    return "RFail" if r[0] == "fail" else "RInvalid"


HDRS = {None: None, "true": True, "false": False, "TRUE": False, "": False}


def mk_headers(flavour, salt):
    """flavour None -> no x-lunar-allow (headers None / {} / unrelated header by salt)."""
    if flavour is None:
        return [None, {}, {"accept": "*/*"}][salt % 3]
    return {"accept": "*/*", "x-lunar-allow": flavour}


def hdr_coq(flavour):
    return c.OptB(HDRS[flavour])


def raw_list(l, salt=0):
    if l is None:
        return [None, ""][salt % 2]
    return ",".join(host_str(h) for h in l)


def list_coq(l):
    return "None" if l is None else c.Some(c.MapList(l, host_coq))


def build_filter(block, allow, salt=0):
    return M.tf.TrafficFilter(raw_block_list=raw_list(block, salt), raw_allow_list=raw_list(allow, salt + 1), logger=LOG)


# =============================================================================
# independent restatement of the property (monitor)
# =============================================================================

def is_private_int(ip):
    """own CIDR arithmetic on the 32-bit integer"""
    return (ip >> 24 == 10 or ip >> 24 == 127 or ip >> 20 == ((172 << 4) | 1)
            or ip >> 16 == ((192 << 8) | 168) or ip == 0)


def quad_int(q):
    a, b, cc, d = q
    return (a << 24) | (b << 16) | (cc << 8) | d


def literal_quad(h):
    if h[0] == "v4" and all(0 <= x <= 255 for x in h[1:5]):
        return tuple(h[1:5])
    return None


class Hit(Exception):
    def __init__(self, sig, demanded, observed):
        self.sig, self.demanded, self.observed = sig, demanded, observed


def monitor_calls(n, cd_s, trace):
    """trace: list of dicts {t (ms), kind: ok|conn|hdr|other, allowed (the destination
    is one the filter must let through / must exclude / None = no demand),
    routed, raised (class name or None)} in order.  Returns the first violation or None.

    Demands (property text, nothing more):
      * excluded destinations are never routed;
      * while fewer than n consecutive gateway failures have been seen since the last
        successful gateway call and no cool-down is running, an admissible call is routed;
      * from the n-th consecutive failure (at t) on, calls at instants < t + c are not routed;
        a call at an instant >= t + c is routed again;
      * after a cool-down the circuit MAY re-open on fewer than n new failures (the count is
        not required to be cleared by the cool-down), it MUST re-open after n new ones;
      * gateway errors never reach the application, other exceptions always do;
        a call that is not routed raises nothing.
    """
    c_ms = cd_s * 1000
    k_total = 0          # consecutive gateway failures since the last successful gateway call
    k_since = 0          # ... since the last success or the end of the last cool-down
    circuit = ("closed",)            # closed | open until u | maybe (open until u, or closed)
    bypass_in_run = False            # a call that bypassed the gateway lies inside the current failure run
    impl_bypassed_in_window = False  # the implementation did keep a call away during this cool-down
    just_expired = False             # a cool-down ended and no call was routed since
    for e in trace:
        t = e["t"]
        if circuit[0] != "closed" and circuit[1] <= t:
            just_expired = circuit[0] == "open" or impl_bypassed_in_window
            circuit = ("closed",)
            k_since = 0
            bypass_in_run = False
            impl_bypassed_in_window = False
        if e["raised"] is not None and not (e["routed"] and e["kind"] == "other"):
            return Hit("raised-into-application:" + str(e["raised"]),
                       "only exceptions of the routed call itself reach the application",
                       "call at t=%d raised %s" % (t, e["raised"]))
        if e["allowed"] is False and e["routed"]:
            return Hit("excluded-destination-routed", "an excluded destination is never routed",
                       "call at t=%d was sent to the gateway" % t)
        if e["allowed"] is not False:
            if circuit[0] == "open":
                if e["routed"]:
                    if impl_bypassed_in_window:
                        return Hit("closed-early:cooldown",
                                   "calls before t_open + %d s (= %d ms) are not routed" % (cd_s, circuit[1]),
                                   "call at t=%d was routed" % t)
                    if bypass_in_run:
                        return Hit("not-opened:bypass-resets-count",
                                   "%d consecutive gateway failures (no successful gateway call in between) "
                                   "open the circuit (threshold %d)" % (k_since, n),
                                   "call at t=%d was routed; a call that bypassed the gateway lay between the failures" % t)
                    return Hit("not-opened:threshold",
                               "%d consecutive gateway failures >= %d open the circuit for %d s" % (k_since, n, cd_s),
                               "call at t=%d was routed" % t)
                if e["allowed"] is True:
                    impl_bypassed_in_window = True
            elif circuit[0] == "maybe":
                if e["routed"]:
                    circuit = ("closed",)
                elif e["allowed"] is True:
                    circuit = ("open", circuit[1])
                    impl_bypassed_in_window = True
            elif not e["routed"] and e["allowed"] is True:
                if just_expired:
                    return Hit("still-open-after-cooldown",
                               "a call at an instant >= t_open + cool-down is routed again",
                               "call at t=%d was not routed" % t)
                return Hit("opened-early:threshold",
                           "only %d consecutive gateway failures (< %d): the call is routed" % (k_total, n),
                           "call at t=%d was not routed" % t)
        if not e["routed"]:
            if circuit[0] != "open" and k_since > 0:
                bypass_in_run = True
            continue
        just_expired = False
        if e["kind"] in ("conn", "hdr"):
            k_total += 1
            k_since += 1
            if k_since >= n:
                circuit = ("open", t + c_ms)
                impl_bypassed_in_window = False
            elif k_total >= n:
                circuit = ("maybe", t + c_ms)
                impl_bypassed_in_window = False
        elif e["kind"] == "ok":
            k_total = k_since = 0
            bypass_in_run = False
        elif e["raised"] is None:
            return Hit("other-exception-swallowed", "an exception that is not a gateway error reaches the application",
                       "call at t=%d returned normally" % t)
    return None


def expected_exclusion(block, allow, h, flavour, answers):
    """True = the property demands 'not routed', False = no demand.
    answers = every resolver answer given for this host so far in the filter's life."""
    if flavour is not None:
        # per-request header: "true" is the explicit override (input of the statement), "false" the
        # explicit per-request exclusion; other values: no demand
        return flavour == "false"
    if allow is not None:
        return h not in allow              # an allow list is in force: everything else is excluded
    if block is not None and h in block:
        return True
    q = literal_quad(h)
    if q is not None:
        return is_private_int(quad_int(q))
    if h[0] == "v6":
        # an IPv6 literal: loopback / unique-local / link-local / unspecified / mapped-private
        # destinations are just as unreachable for the gateway
        ip = ipaddress.ip_address(host_str(h).split("%")[0])
        m = ip.ipv4_mapped
        return bool(ip.is_loopback or ip.is_private or ip.is_link_local or ip.is_unspecified
                    or (m is not None and is_private_int(int(m))))
    # a name: demanded only when every answer seen so far points to a private address
    qs = [tuple(int(x) for x in a[1].split(".")) for a in answers if a[0] == "quad"]
    return bool(qs) and len(qs) == len(answers) and all(is_private_int(quad_int(q)) for q in qs)


# =============================================================================
# suite "failsafe"
# =============================================================================

OPS = ["none", "handled", "other", "vok", "verr", "read", "adv"]


def exec_ops(case):
    """case: {ctor, t0, ops: [[name, arg]...]} -> fills case["observed"]."""
    f = build_failsafe(case["ctor"])
    f.handle_on((Handled,))
    NOW[0] = case["t0"]
    obs = []
    for i, (name, arg) in enumerate(case["ops"]):
        if name in ("none", "handled", "other"):
            exc = None
            if name == "handled":
                exc = [Handled, HandledSub, M.fs.ProxyErrorException][i % 3]("gateway")
            elif name == "other":
                exc = [AppError, AppBaseError, KeyError][i % 3]("app")
            propagated = False
            try:
                with f:
                    if exc is not None:
                        raise exc
            except BaseException as x:  # noqa: B902
                propagated = True
                if x is not exc:
                    obs.append(["exit", "foreign:" + type(x).__name__])
                    continue
            obs.append(["exit", propagated])
        elif name in ("vok", "verr"):
            raised = False
            try:
                f.validate_headers({"x-lunar-error": _err_code(i)} if name == "verr" else [{}, {"content-type": "x"}][i % 2])
            except M.fs.ProxyErrorException:
                raised = True
            except Exception as x:  # anything else would be raised into the application
                raised = "foreign:" + type(x).__name__
            obs.append(["validate", raised])
        elif name == "read":
            v = f.state_ok
            obs.append(["read", v if isinstance(v, bool) else "nonbool:" + repr(v)])
        else:
            NOW[0] += arg
            obs.append(["adv"])
    case["observed"] = obs
    return case


def coq_ops_case(case):
    def op(o):
        name, arg = o
        return {"none": "XNone", "handled": "XHandled", "other": "XOther", "vok": "(Validate false)",
                "verr": "(Validate true)", "read": "Read"}.get(name) or "(Adv %s)" % c.Z(arg)

    def ob(o):
        if o[0] == "exit":
            return "(OExit %s)" % (c.B(o[1]) if isinstance(o[1], bool) else "true")
        if o[0] == "validate":
            return "(OValidate %s)" % c.B(o[1])
        if o[0] == "read":
            return "(ORead %s)" % (c.B(o[1]) if isinstance(o[1], bool) else "false")
        return "OAdv"
    return c.Tuple(coq_ctor(case["ctor"]), c.Z(case["t0"]), c.MapList(case["ops"], op), c.MapList(case["observed"], ob))


def monitor_ops(case):
    """Unconditional demands on raw operations: what propagates, what raises, types."""
    for (name, _), o in zip(case["ops"], case["observed"]):
        if name in ("none", "handled", "other"):
            if not isinstance(o[1], bool):
                return Hit("foreign-exception:" + str(o[1]), "the with block raises nothing of its own", str(o))
            if name == "other" and o[1] is not True:
                return Hit("other-exception-swallowed", "an exception that is not a gateway error propagates", str(o))
            if name != "other" and o[1] is not False:
                return Hit("handled-exception-propagated", "a gateway error / normal exit does not raise", str(o))
        elif name in ("vok", "verr"):
            if o[1] != (name == "verr"):
                return Hit("validate-headers", "ProxyErrorException iff x-lunar-error is present", str(o))
        elif name == "read" and not isinstance(o[1], bool):
            return Hit("state-ok-not-bool", "state_ok is a boolean", str(o))
    return None


# ---- the same object driven the way the hooks drive it (call events -> raw operations)

EVENTS = ["ok", "err", "other", "filtered", "tick"]
TICK_MS = 1000


def exec_events_on_object(ctor, t0, events):
    """Imitates hooks/*.py on a bare FailSafe:  with fs: if fs.state_ok and allowed: <routed call>.
    Returns (case for suite failsafe, semantic trace for the monitor)."""
    f = build_failsafe(ctor)
    f.handle_on((_ConnectionError,))
    NOW[0] = t0
    ops, obs, trace = [], [], []
    for i, ev in enumerate(events):
        if ev[0] == "tick":
            NOW[0] += ev[1]
            ops.append(["adv", ev[1]])
            obs.append(["adv"])
            continue
        kind = ev[0]
        if kind == "err":
            kind = "hdr" if i % 2 else "conn"
        allowed = kind != "filtered"
        routed = False
        raised = None
        exc = None
        try:
            with f:
                ok = f.state_ok
                ops.append(["read", 0])
                obs.append(["read", ok if isinstance(ok, bool) else "nonbool"])
                if ok and allowed:
                    routed = True
                    if kind == "conn":
                        exc = _ConnectionError("refused")
                        raise exc
                    if kind == "other":
                        exc = AppError("app")
                        raise exc
                    try:
                        f.validate_headers({"x-lunar-error": _err_code(len(ops))} if kind == "hdr" else {})
                        ops.append(["vok", 0])
                        obs.append(["validate", False])
                    except M.fs.ProxyErrorException:
                        ops.append(["verr", 0])
                        obs.append(["validate", True])
                        raise
            ops.append(["handled" if routed and kind in ("conn", "hdr") else "none", 0])
            obs.append(["exit", False])
        except BaseException as x:  # noqa: B902
            raised = type(x).__name__
            ops.append(["other" if kind == "other" else ("handled" if kind in ("conn", "hdr") else "none"), 0])
            obs.append(["exit", True])
        trace.append({"t": NOW[0], "kind": kind if allowed else "ok", "allowed": allowed, "routed": routed, "raised": raised})
    # raw-op view: the exceptions raised inside the with block are the harness' own; what the
    # model must reproduce is which exits propagate and what state_ok answers
    case = {"ctor": ctor, "t0": t0, "ops": ops, "observed": obs, "events": [list(e) for e in events]}
    return case, trace


# =============================================================================
# suite "overlap": several `with fail_safe:` blocks open at once on ONE object
# =============================================================================
#
# The interceptor has a single FailSafe shared by every hook, thread and task, so
# the method calls of different in-flight requests reach it interleaved.  A
# history is a set of guarded calls (id -> kind) and a SCHEDULE: a list of call
# ids (each occurrence lets that call execute its next method call on the shared
# object) and clock advances.  The real __enter__ / state_ok / validate_headers /
# __exit__ of the same instance are called in that global order -- exactly what
# threads / tasks do to it; no real threads are needed because every method body
# is one step.
#
#   kind       what the call does after __enter__ and `state_ok`
#   clean      routed; clean response -> validate_headers(ok); normal exit
#   hdr        routed; x-lunar-error -> validate_headers raises; exit with ProxyErrorException
#   conn       routed; the transport raises ConnectionError; exit with it
#   other      routed; the application's own exception; exit with it (must propagate)
#   filtered   destination excluded by the filter: never routed; normal exit
#   retryfail  routed; clean first response, then the retry fails: validate_headers(ok); exit with ConnectionError
#   (whatever the kind: not routed when its own state_ok answered False -> normal exit)

OVERLAP_KINDS = ["clean", "hdr", "conn", "other", "filtered", "retryfail"]
OVERLAP_STEPS = {"clean": 4, "hdr": 4, "conn": 3, "other": 3, "filtered": 3, "retryfail": 4}
FAR_MS = 10 ** 9


_PROBE_CACHE = {}


def probe_object(f, limit):
    """What an observer sees of the object now, through its public interface only and without
    touching it (two shallow copies: all its fields are immutable values):
      okp  what state_ok answers at this instant;
      tol  the tolerance: how many further gateway errors it takes, once any cool-down is over,
           until state_ok answers False (the observable form of the failure count);
           -1 still open in the far future, -2 not open after `limit` errors, -3 the block raised.
    The answer is a function of the object's fields and the clock (that is what probing a copy
    assumes anyway), so it is memoised on them; the fields are a cache key only, never compared."""
    try:
        key = (tuple(sorted(f.__dict__.items())), NOW[0], limit)
        hit = _PROBE_CACHE.get(key)
    except TypeError:
        key = hit = None
    if hit is not None:
        return hit
    okp = copy.copy(f).state_ok
    if not isinstance(okp, bool):
        okp = "nonbool:" + repr(okp)
    p = copy.copy(f)
    saved = NOW[0]
    NOW[0] = saved + FAR_MS
    tol = -1
    try:
        if p.state_ok is True:
            tol = -2
            for j in range(1, limit + 1):
                try:
                    with p:
                        raise M.fs.ProxyErrorException("probe")
                except BaseException:  # noqa: B902
                    tol = -3
                    break
                if p.state_ok is not True:
                    tol = j
                    break
    finally:
        NOW[0] = saved
    if key is not None:
        if len(_PROBE_CACHE) > 200000:
            _PROBE_CACHE.clear()
        _PROBE_CACHE[key] = (okp, tol)
    return okp, tol


def exec_overlap(case):
    """case: {ctor, t0, calls: {id: kind}, schedule: [id | ["adv", ms]]} -> fills case["events"]:
    the method calls in the global order they were executed, each with what it returned and
    with the probe (okp, tol) taken right after it."""
    f = build_failsafe(case["ctor"])
    f.handle_on((_ConnectionError,))
    n, _ = configured(case["ctor"])
    limit = n + 3
    NOW[0] = case["t0"]
    st = {}
    for k, kind in case["calls"].items():
        st[int(k)] = {"kind": kind, "plan": ["enter", "read"], "exc": None, "src": None, "done": False}
    evs = []

    def record(e):
        e["okp"], e["tol"] = probe_object(f, limit)
        e["t"] = NOW[0]
        evs.append(e)

    def step(i):
        c_ = st[i]
        if c_["done"]:
            return
        what = c_["plan"].pop(0)
        if what == "enter":
            r = f.__enter__()
            record({"e": "enter", "id": i, "self": r is f})
        elif what == "read":
            ok = f.state_ok
            routed = ok is True and c_["kind"] != "filtered"
            c_["plan"] = {"clean": ["vok", "exit"], "hdr": ["verr", "exit"], "conn": ["raise-conn", "exit"],
                          "other": ["raise-other", "exit"], "retryfail": ["vok", "raise-conn", "exit"]
                          }[c_["kind"]] if routed else ["exit"]
            record({"e": "read", "id": i, "ans": ok if isinstance(ok, bool) else "nonbool:" + repr(ok), "routed": routed})
        elif what in ("vok", "verr"):
            raised = False
            try:
                f.validate_headers({"x-lunar-error": _err_code(i)} if what == "verr" else [{}, {"content-type": "x"}][i % 2])
            except M.fs.ProxyErrorException as x:
                raised = True
                c_["exc"], c_["src"] = x, "hdr"
            except BaseException as x:  # noqa: B902
                raised = "foreign:" + type(x).__name__
                c_["exc"], c_["src"] = x, "foreign"
            if raised:
                c_["plan"] = ["exit"]
            record({"e": "validate", "id": i, "err": what == "verr", "raised": raised})
        elif what == "raise-conn":
            c_["exc"], c_["src"] = _ConnectionError("refused"), "conn"
            step(i)                     # raising is not a call on the object: the exit follows at once
        elif what == "raise-other":
            c_["exc"], c_["src"] = [AppError, KeyError][i % 2]("app"), "other"
            step(i)
        else:
            x = c_["exc"]
            try:
                if x is None:
                    f.__exit__(None, None, None)
                    propagated = False
                else:
                    propagated = not f.__exit__(type(x), x, x.__traceback__)
            except BaseException as y:  # noqa: B902
                propagated = "foreign:" + type(y).__name__
            c_["done"] = True
            kind = "none" if x is None else ("other" if c_["src"] in ("other", "foreign") else "handled")
            record({"e": "exit", "id": i, "kind": kind, "src": c_["src"], "propagated": propagated})

    for slot in case["schedule"]:
        if isinstance(slot, list):
            NOW[0] += slot[1]
            record({"e": "adv", "d": slot[1]})
        else:
            step(int(slot))
    for i in sorted(st):                # calls still open when the schedule ends leave in id order
        while not st[i]["done"]:
            step(i)
    case["events"] = evs
    return case


def coq_overlap_case(case):
    def ev(e):
        k = e["e"]
        if k == "enter":
            return "(CEnter %d)" % e["id"]
        if k == "read":
            return "(CRead %d)" % e["id"]
        if k == "validate":
            return "(CValidate %d %s)" % (e["id"], c.B(e["err"]))
        if k == "exit":
            return "(CExit %d %s)" % (e["id"], {"none": "KNone", "handled": "KHandled", "other": "KOther"}[e["kind"]])
        return "(CAdv %s)" % c.Z(e["d"])

    def ob(e):
        k = e["e"]
        if k == "read":
            r = "(ORead %s)" % (c.B(e["ans"]) if isinstance(e["ans"], bool) else "false")
        elif k == "validate":
            r = "(OValidate %s)" % c.B(bool(e["raised"]))
        elif k == "exit":
            r = "(OExit %s)" % c.B(bool(e["propagated"]))
        else:
            r = "OAdv"
        return c.Tuple(r, c.B(e["okp"] is True), c.Z(e["tol"]))
    return c.Tuple(coq_ctor(case["ctor"]), c.Z(case["t0"]), c.MapList(case["events"], ev), c.MapList(case["events"], ob))


# ---- monitor: the property over the executed method calls, as a set of admissible readings
#
# The property speaks of calls ("any successful call through the gateway clears the failure
# count", "consecutive gateway-side failures"); with calls that overlap, the instant at which a
# call's success / failure takes effect is only fixed up to the call's own extent.  The monitor
# therefore accepts EVERY reading in which
#   * a success takes effect at some instant between the clean validate_headers and the __exit__
#     of that call,
#   * a gateway error takes effect at the __exit__ that receives it (for an x-lunar-error
#     response: at some instant between that validate_headers and the __exit__),
#   * the circuit opens when the n-th consecutive failure takes effect, for c seconds from that
#     instant; a further failure while it is open may or may not restart the cool-down; after a
#     cool-down the circuit may re-open on fewer than n new failures (nothing says the count is
#     cleared by the cool-down), and must after n new ones;
# and reports the first observation (answer of state_ok to a call, probe after an event) that NO
# such reading explains.  State of a reading: (k_total, k_since, open_until | -1, calls whose
# success has not taken effect yet, calls whose header error has not taken effect yet).

def _mon_success(stt):
    return (0, 0, stt[2], stt[3], stt[4])


def _mon_error(stt, now, n, c_ms):
    kt, ks, u, P, E = stt
    kt, ks = kt + 1, ks + 1
    if ks >= n:
        if u < 0:
            return [(kt, ks, now + c_ms, P, E)]
        return [(kt, ks, u, P, E), (kt, ks, now + c_ms, P, E)]
    if kt >= n:
        return [(kt, ks, u, P, E), (kt, ks, now + c_ms, P, E)]
    return [(kt, ks, u, P, E)]


def _mon_norm(stt, now):
    if stt[2] >= 0 and now >= stt[2]:
        return (stt[0], 0, -1, stt[3], stt[4])
    return stt


def _mon_closure(states, now, n, c_ms):
    seen = set()
    work = [_mon_norm(x, now) for x in states]
    while work:
        x = work.pop()
        if x in seen:
            continue
        seen.add(x)
        kt, ks, u, P, E = x
        for a in P:
            work.append(_mon_norm(_mon_success((kt, ks, u, P - {a}, E)), now))
        for b in E:
            for y in _mon_error((kt, ks, u, P, E - {b}), now, n, c_ms):
                work.append(_mon_norm(y, now))
    return seen


def _mon_tols(stt, n):
    kt, ks, u, _, _ = stt
    return {max(1, n - kt), n if u >= 0 else max(1, n - ks)}


def monitor_overlap(n, cd_s, evs):
    c_ms = cd_s * 1000
    states = {(0, 0, -1, frozenset(), frozenset())}
    open_ids = set()
    overlapped = False
    last_count_event = None           # "success" | "error": the last clean response / error exit in the global order
    hist = []

    def where():
        return ":overlap" if overlapped else ":sequential"

    def ks_of(sts):
        return sorted({x[0] for x in sts})

    for e in evs:
        now = e["t"]
        k = e["e"]
        i = e.get("id")
        hist.append(k + (":%s" % i if i is not None else ""))
        prev = states
        # -- unconditional demands on the method call itself
        if k == "enter":
            if open_ids:
                overlapped = True
            open_ids.add(i)
            if e["self"] is not True:
                return Hit("enter-result", "__enter__ returns the object", "it did not")
        elif k == "validate" and e["raised"] is not e["err"]:
            return Hit("validate-headers", "ProxyErrorException iff x-lunar-error is present", "raised=%r" % (e["raised"],))
        elif k == "exit":
            open_ids.discard(i)
            want = e["kind"] == "other"
            if e["propagated"] is not want:
                return Hit("other-exception-swallowed" if want else "raised-into-application:%s" % e["src"],
                           "gateway errors never reach the application, other exceptions always do",
                           "exit of call %s (%s): propagated=%r" % (i, e["kind"], e["propagated"]))
        elif k == "read" and not isinstance(e["ans"], bool):
            return Hit("state-ok-not-bool", "state_ok is a boolean", str(e["ans"]))
        # -- effect on the admissible readings
        nxt = set()
        forced_success = False        # a reading in which this call's success takes effect at this very exit
        for x in states:
            x = _mon_norm(x, now)
            kt, ks, u, P, E = x
            if k == "validate" and not e["err"]:
                nxt.add((kt, ks, u, P | {i}, E))
            elif k == "validate":
                nxt.add((kt, ks, u, P, E | {i}))
            elif k == "exit":
                if i in P:
                    forced_success = True
                    x = _mon_success((kt, ks, u, P - {i}, E))
                    kt, ks, u, P, E = x
                if e["kind"] == "handled" and (e["src"] != "hdr" or i in E):
                    nxt.update(_mon_error((kt, ks, u, P, E - {i}), now, n, c_ms))
                else:
                    nxt.add((kt, ks, u, P, E - {i}))
            else:
                nxt.add(x)
        if k == "validate" and not e["err"]:
            last_count_event = "success"
        elif k == "exit" and e["kind"] == "handled":
            last_count_event = "error"
        if forced_success:
            last_count_event = "success"
        states = _mon_closure(nxt, now, n, c_ms)
        # -- observations: the answer given to the call, then the probe
        for what, val in ((("read", e["ans"]),) if k == "read" else ()) + (("okp", e["okp"]),):
            keep = {x for x in states if (x[2] < 0) == (val is True)}
            if not keep:
                all_closed = all(x[2] < 0 for x in states)
                if all_closed:
                    expired = any(x[2] >= 0 for x in prev)
                    sig = "still-open-after-cooldown" if expired else "opened-early"
                    dem = ("every admissible reading has the circuit closed at t=%d: consecutive gateway failures in "
                           "%s, threshold %d" % (now, ks_of(states), n))
                else:
                    sig = "not-opened" if (k == "exit" and e["kind"] == "handled") else "closed-early"
                    dem = ("every admissible reading has the circuit open at t=%d (until %s): consecutive gateway "
                           "failures in %s, threshold %d, cool-down %d s"
                           % (now, sorted({x[2] for x in states}), ks_of(states), n, cd_s))
                return Hit(sig + where(), dem, "%s -> state_ok = %r after %s" % (
                    "the call was answered" if what == "read" else "probe", val, " ".join(hist[-12:])))
            states = keep
        keep = {x for x in states if e["tol"] in _mon_tols(x, n)}
        if not keep:
            exp = sorted(set().union(*[_mon_tols(x, n) for x in states]))
            if e["tol"] >= 1 and e["tol"] < min(exp):
                sig = "success-not-counted" if last_count_event == "success" else "error-overcounted"
            elif e["tol"] >= 1:
                sig = "error-not-counted" if last_count_event == "error" else "count-cleared-without-success"
            else:
                sig = "never-opens" if e["tol"] == -2 else "tolerance-probe:%d" % e["tol"]
            return Hit(sig + where(),
                       "further gateway errors until the circuit opens (threshold %d minus the failures since the last "
                       "successful gateway call) in %s" % (n, exp),
                       "%d after %s" % (e["tol"], " ".join(hist[-12:])))
        states = keep
    return None


def do_overlap_case(o, case, record=True):
    exec_overlap(case)
    evs = case["events"]
    n, cd = configured(case["ctor"])
    h = monitor_overlap(n, cd, evs)
    open_now, overl = set(), False
    for e in evs:
        if e["e"] == "enter":
            overl = overl or bool(open_now)
            open_now.add(e["id"])
        elif e["e"] == "exit":
            open_now.discard(e["id"])
    nontrivial = overl and any(e["okp"] is False for e in evs) and any(e["e"] == "validate" and not e["err"] for e in evs)
    idx = o.case("overlap", coq_overlap_case(case), case, nontrivial) if (record or write_for(h)) else -1
    o.monitor_checked()
    if h:
        record_hit(o, "overlap", idx, h, case)
    return overl


def interleavings(parts):
    """every merge of the sequences parts = [(id, steps)...] that keeps each call's own order"""
    parts = [(i, k) for i, k in parts if k > 0]
    if not parts:
        yield []
        return
    for j, (i, k) in enumerate(parts):
        rest = parts[:j] + [(i, k - 1)] + parts[j + 1:]
        for tail in interleavings(rest):
            yield [i] + tail


def overlap_history(n, cd, pre, kinds, inter, tail, adv_before=None, adv_at=None):
    """pre sequential gateway errors (ids 1..pre), optional clock advance, the body calls
    (ids 11, 12, ...) in the interleaving `inter` with an optional advance inserted at position
    adv_at = (pos, ms), then the tail (sequential calls ids 31.. and advances)."""
    calls, sched = {}, []
    for j in range(1, pre + 1):
        calls[j] = ["conn", "hdr"][j % 2]
        sched += [j] * OVERLAP_STEPS[calls[j]]
    if adv_before is not None:
        sched.append(["adv", adv_before])
    for j, kd in enumerate(kinds):
        calls[11 + j] = kd
    body = list(inter)
    if adv_at is not None:
        body.insert(adv_at[0], ["adv", adv_at[1]])
    sched += body
    for j, t in enumerate(tail):
        if isinstance(t, list):
            sched.append(t)
        else:
            calls[31 + j] = t
            sched += [31 + j] * OVERLAP_STEPS[t]
    return {"ctor": direct(n, cd), "t0": T0 + 250, "calls": {str(k): v for k, v in calls.items()}, "schedule": sched}


def gen_overlap(o):
    r = o.rng.fork(4)
    pairs = [(a, b) for ia, a in enumerate(OVERLAP_KINDS) for b in OVERLAP_KINDS[ia:]]
    w = o.scale(4, 2, 1)               # 1 history in w is also written as a correspondence case
    # (A) ALL interleavings of two calls x unordered pairs of kinds, starting from a count of 0, 1,
    #     threshold-1 (pre sequential errors), followed by one more gateway error (does the circuit
    #     open exactly when it should?) and, around the threshold, by probes at the cool-down edge
    for (n, cd) in [(3, 2), (2, 1)]:
        for pre in sorted({0, 1, n - 1}):
            if (n, pre) == (3, 1) and not o.thorough():
                continue
            tails = [["conn"]]
            if pre == n - 1:
                tails.append([["adv", cd * 1000 - 1], "clean", ["adv", 1], "clean", "conn"])
            for (ka, kb) in pairs:
                for inter in interleavings([(11, OVERLAP_STEPS[ka]), (12, OVERLAP_STEPS[kb])]):
                    for tail in tails:
                        do_overlap_case(o, overlap_history(n, cd, pre, [ka, kb], inter, tail), record=r.chance(1, w))
                        o.count("overlap/2 calls, count %s at start" % ("0" if pre == 0 else "max-1" if pre == n - 1 else "1"))
    # (B) the circuit is open when the two calls start (count = max): 1 ms before the end of the
    #     cool-down with 1 ms passing at a sampled position inside, and exactly at its end
    n, cd = 2, 1
    for (ka, kb) in pairs:
        for inter in interleavings([(11, OVERLAP_STEPS[ka]), (12, OVERLAP_STEPS[kb])]):
            do_overlap_case(o, overlap_history(n, cd, n, [ka, kb], inter, ["conn"], adv_before=cd * 1000),
                            record=r.chance(1, w))
            o.count("overlap/2 calls, cool-down just over at start")
            for _ in range(o.scale(2, 4, 2)):
                pos = r.intn(len(inter) + 1)
                do_overlap_case(o, overlap_history(n, cd, n, [ka, kb], inter, ["clean", "conn"],
                                                   adv_before=cd * 1000 - 1, adv_at=(pos, 1)), record=r.chance(1, w))
                o.count("overlap/2 calls, cool-down ends inside")
    # (C) three calls: sampled kinds, interleavings, starting counts and clock advances
    for _ in range(o.scale(1500, 25000, 12000)):
        n, cd = r.range(1, 3), r.range(1, 2)
        kinds = [r.pick(OVERLAP_KINDS) for _ in range(3)]
        inter = []
        left = {11 + j: OVERLAP_STEPS[kd] for j, kd in enumerate(kinds)}
        while left:
            i = r.pick(sorted(left))
            inter.append(i)
            left[i] -= 1
            if not left[i]:
                del left[i]
        for _ in range(r.intn(3)):
            inter.insert(r.intn(len(inter) + 1), ["adv", r.pick([1, 999, cd * 1000 - 1, cd * 1000, cd * 1000 + 1])])
        pre = r.intn(n + 1)
        tail = r.pick([["conn"], ["hdr", "conn"], [["adv", cd * 1000 - 1], "clean", ["adv", 1], "clean", "conn"], []])
        adv_before = r.pick([None, None, 1, cd * 1000 - 1, cd * 1000])
        do_overlap_case(o, overlap_history(n, cd, pre, kinds, inter, tail, adv_before=adv_before),
                        record=not o.search() and r.chance(1, 2))
        o.count("overlap/3 calls sampled")
    # (D) real threads (see do_threads_probe)
    for nthreads in (2, 4, 8):
        do_threads_probe(o, {"threads": nthreads, "per": o.scale(1500, 20000, 6000)})


# ---- REAL threads on one FailSafe (monitor only) -------------------------------------------
# The overlap model takes a method body as one atomic step (props/C19.json "assumptions").  For
# the threaded requests hook that is an assumption about the interpreter: a thread switch inside
# `self._error_counter += 1` would lose a failure.  This probe runs `threads` real threads, each
# making `per` guarded calls that all end in a gateway error, on ONE FailSafe whose threshold is
# exactly threads*per: every failure is consecutive, so the circuit must be open afterwards; a
# lost update leaves it closed.  Public interface only (state_ok).

def do_threads_probe(o, case):
    import threading
    nthreads, per = case["threads"], case["per"]
    total = nthreads * per
    f = build_failsafe(direct(total, 1))
    NOW[0] = T0
    gate = threading.Barrier(nthreads)
    errors = []

    def work():
        try:
            gate.wait()
            for _ in range(per):
                with f:
                    if f.state_ok:
                        raise M.fs.ProxyErrorException("gateway error")
        except BaseException as x:  # noqa: B902
            errors.append(type(x).__name__)

    old = sys.getswitchinterval()
    sys.setswitchinterval(1e-6)
    try:
        ts = [threading.Thread(target=work) for _ in range(nthreads)]
        for t in ts:
            t.start()
        for t in ts:
            t.join()
    finally:
        sys.setswitchinterval(old)
    o.monitor_checked()
    h = None
    if errors:
        h = Hit("raised-into-application:" + errors[0], "gateway errors never reach the application",
                "a thread saw %s" % errors[0])
    elif f.state_ok is not False:
        h = Hit("not-opened:threads", "%d consecutive gateway failures (threshold %d) open the circuit" % (total, total),
                "state_ok is True after %d threads x %d failing guarded calls on one FailSafe" % (nthreads, per))
    if h:
        record_hit(o, "overlap", -1, h, case)
    o.count("overlap/real threads")


# =============================================================================
# suite "filter"
# =============================================================================

def exec_queries(case):
    """case: {block, allow, queries: [{host, hdr, res}]} -> observed per query."""
    f = build_filter(case["block"], case["allow"], case.get("salt", 0))
    obs = []
    for i, q in enumerate(case["queries"]):
        hs = host_str(q["host"])
        RESOLVER.clear()
        RESOLVER[hs] = tuple(q["res"])
        try:
            v = f.is_allowed(hs, mk_headers(q["hdr"], i))
            obs.append(["decision", v] if isinstance(v, bool) else ["raises", "nonbool:" + repr(v)])
        except BaseException as x:  # noqa: B902
            obs.append(["raises", type(x).__name__])
    case["observed"] = obs
    return case


def coq_filter_case(case):
    def q(x):
        return c.Tuple(host_coq(x["host"]), hdr_coq(x["hdr"]), res_coq(x["res"]))

    def d(o):
        if o[0] == "decision":
            return "(Decision %s)" % c.B(o[1])
        return "(Raises %d)" % (1 if o[1] == "AddressValueError" else 2)
    return c.Tuple(list_coq(case["block"]), list_coq(case["allow"]), c.MapList(case["queries"], q),
                   c.MapList(case["observed"], d))


def host_class(h):
    if h[0] == "v4":
        return "ipv4" if literal_quad(tuple(h)) else "name"
    return {"v6": "ipv6-literal", "name": "name", "junk": "name"}[h[0]]


def monitor_queries(case):
    block = [tuple(h) for h in case["block"]] if case["block"] else None
    allow = [tuple(h) for h in case["allow"]] if case["allow"] else None
    answers = {}
    for q, o in zip(case["queries"], case["observed"]):
        h = tuple(q["host"])
        if literal_quad(h) is None and h[0] != "v6":
            answers.setdefault(h, []).append(tuple(q["res"]))
        if o[0] == "raises":
            what = "resolver-" + q["res"][0] if host_class(h) == "name" else host_class(h)
            return Hit("decision-raises:%s:%s" % (o[1], what),
                       "is_allowed returns a boolean for every destination", "is_allowed(%r) raised %s" % (host_str(h), o[1]))
        if expected_exclusion(block, allow, h, q["hdr"], answers.get(h, [])) and o[1] is not False:
            why = ("header x-lunar-allow: false" if q["hdr"] is not None else
                   "private/loopback" if (allow is None and not (block and h in block)) else "allow/block list")
            return Hit("excluded-destination-allowed:" + why.split("/")[0].split(" ")[0],
                       "%r (%s) is never routed through the gateway" % (host_str(h), why), "is_allowed = True")
    return None


# =============================================================================
# suite "hook"
# =============================================================================

HOOK_BLOCK = [("name", 1), ("v4", 198, 51, 100, 7)]
HOOK_HOSTS = {       # destination classes used by call events
    "pub": (("v4", 93, 184, 216, 34), ("fail",)),
    "pubname": (("name", 0), ("quad", "93.184.216.34")),
    "blocked": (("name", 1), ("quad", "93.184.216.35")),
    "private": (("v4", 10, 1, 2, 3), ("fail",)),
    "privname": (("name", 2), ("quad", "192.168.7.7")),
    "v6": (("v6", 0), ("fail",)),
    "badlabel": (("junk", 6), ("invalid",)),
    # ONE name whose resolver answer changes between calls (public / private): the hook's filter
    # cache beyond the stable-resolver hypothesis of C19_hook_excluded_never_contacts_gateway -- the
    # filter is not consulted (so nothing is cached) while the circuit is open
    "flip_pub": (("name", 5), ("quad", "93.184.216.36")),
    "flip_priv": (("name", 5), ("quad", "10.9.8.7")),
}


def exec_hook(case):
    """case: {ctor, block, allow, t0, events: [["call", hostclass, hdr, outcome] | ["tick", d]]}"""
    f = build_failsafe(case["ctor"])
    tfil = build_filter(case["block"], case["allow"])
    cc = M.cfg.ConnectionConfig(is_valid=True, proxy_host="lunar-proxy.verif", proxy_port=8000, proxy_scheme="http",
                                proxy_url=_Transport.GW, proxy_host_with_port="lunar-proxy.verif:8000")
    hook = M.hook.RequestsHook(LOG, f, tfil, cc)
    request = hook._hook_module()
    sess = _Session()
    NOW[0] = case["t0"]
    obs, trace = [], []
    answers = {}
    block = [tuple(h) for h in case["block"]] if case["block"] else None
    allow = [tuple(h) for h in case["allow"]] if case["allow"] else None
    for i, ev in enumerate(case["events"]):
        if ev[0] == "tick":
            NOW[0] += ev[1]
            continue
        _, hc, hdr, outcome = ev
        h, r = HOOK_HOSTS[hc]
        hs = host_str(h)
        RESOLVER.clear()
        RESOLVER[hs] = r
        TRANSPORT.calls = []
        TRANSPORT.outcome = outcome
        url = "http://%s%s/v1/x?i=%d" % ("[" + hs + "]" if ":" in hs else hs, [":8080", ""][i % 2], i)
        kw = {}
        hd = mk_headers(hdr, i)
        if hd is not None or i % 2:
            kw["headers"] = hd
        raised = None
        try:
            resp = request(sess, "GET", url, **kw)
            if not isinstance(resp, _Response):
                raised = "not-a-response"
        except BaseException as x:  # noqa: B902
            raised = type(x).__name__
        gw = "gw" in TRANSPORT.calls
        direct = "direct" in TRANSPORT.calls
        obs.append([gw, direct, 0 if raised is None else (1 if raised == "AppError" else 2), raised])
        if literal_quad(h) is None and h[0] != "v6":
            answers.setdefault(h, []).append(r)
        excl = expected_exclusion(block, allow, h, hdr, answers.get(h, []))
        if excl:
            allowed = False
        elif hdr is None and allow is None and hc in ("pub", "pubname"):
            allowed = True          # a public destination on no list: must be routed when the circuit is closed
        else:
            allowed = None
        trace.append({"t": NOW[0], "kind": outcome, "allowed": allowed, "routed": gw, "raised": raised,
                      "direct": direct, "host": hs})
    case["observed"] = obs
    return case, trace


def coq_hook_case(case):
    def ev(e):
        if e[0] == "tick":
            return "(HTick %s)" % c.Z(e[1])
        _, hc, hdr, outcome = e
        h, r = HOOK_HOSTS[hc]
        return "(HCall %s %s %s %s)" % (host_coq(h), hdr_coq(hdr), res_coq(r),
                                        {"ok": "GOk", "conn": "GConn", "hdr": "GHdr", "other": "GOther"}[outcome])

    def ob(o):
        return c.Tuple(c.B(o[0]), c.B(o[1]), c.Z(o[2]))
    return c.Tuple(coq_ctor(case["ctor"]), list_coq(case["block"]), list_coq(case["allow"]), c.Z(case["t0"]),
                   c.MapList(case["events"], ev), c.MapList(case["observed"], ob))


def monitor_hook_extra(trace):
    """a call that is not sent to the gateway, or whose gateway attempt failed with a gateway
    error, goes to the provider directly"""
    for e in trace:
        if e["raised"] is None and not e["direct"] and not (e["routed"] and e["kind"] == "ok"):
            return Hit("call-lost", "a call not served by the gateway is sent to the provider directly",
                       "call at t=%d to %s reached neither" % (e["t"], e["host"]))
    return None


# =============================================================================
# driver
# =============================================================================

def record_hit(o, suite, idx, h, case):
    o.hit(suite, idx, h.sig, h.demanded, h.observed, case)


_WRITTEN_FOR = {}


def write_for(h):
    """cases with a monitor hit are written as correspondence cases too (the first 20 per
    signature), so that a replay also says what the model answers for that very input"""
    if not h:
        return False
    _WRITTEN_FOR[h.sig] = _WRITTEN_FOR.get(h.sig, 0) + 1
    return _WRITTEN_FOR[h.sig] <= 20


def do_ops_case(o, case, record=True):
    exec_ops(case)
    idx = o.case("failsafe", coq_ops_case(case), case, any(x == ["read", False] for x in case["observed"])) if record else -1
    o.monitor_checked()
    h = monitor_ops(case)
    if h:
        record_hit(o, "failsafe", idx, h, case)


def do_event_case(o, ctor, t0, events, record=True):
    case, trace = exec_events_on_object(ctor, t0, events)
    nontrivial = any(not e["routed"] and e["allowed"] for e in trace)
    n, cd = configured(ctor)
    h = monitor_ops(case) or monitor_calls(n, cd, trace)
    idx = o.case("failsafe", coq_ops_case(case), case, nontrivial) if (record or write_for(h)) else -1
    o.monitor_checked()
    if h:
        record_hit(o, "failsafe", idx, h, case)
    return nontrivial


def do_filter_case(o, case, record=True):
    exec_queries(case)
    nontrivial = any(x == ["decision", False] for x in case["observed"]) and any(x == ["decision", True] for x in case["observed"])
    h = monitor_queries(case)
    idx = o.case("filter", coq_filter_case(case), case, nontrivial) if (record or write_for(h)) else -1
    o.monitor_checked(len(case["queries"]))
    if h:
        record_hit(o, "filter", idx, h, case)


def do_hook_case(o, case, record=True):
    case, trace = exec_hook(case)
    nontrivial = any(e["allowed"] and not e["routed"] for e in trace)
    n, cd = configured(case["ctor"])
    h = monitor_calls(n, cd, trace) or monitor_hook_extra(trace)
    idx = o.case("hook", coq_hook_case(case), case, nontrivial) if (record or write_for(h)) else -1
    o.monitor_checked()
    if h:
        record_hit(o, "hook", idx, h, case)
    return nontrivial


def direct(n, cd):
    return {"mode": "direct", "cooldown_time": cd, "max_errors_allowed": n}


def env(a, s):
    return {"mode": "env", "attempts": a, "secs": s}


def seqs(alphabet, lo, hi):
    for l in range(lo, hi + 1):
        yield from itertools.product(alphabet, repeat=l)


def to_events(seq):
    return [["tick", TICK_MS] if s == "tick" else [s] for s in seq]


T0 = 1_700_000_000_000


def gen_failsafe(o):
    r = o.rng.fork(1)
    # (1) every sequence of call events (5 events) x (n, c) in {1..3}^2, driven through the
    #     `with fail_safe: if state_ok and allowed` pattern; all of them are monitored, the
    #     shorter ones (and a sample of the longest) are also written as correspondence cases
    max_len = o.scale(6, 7, 5)
    rec_len = o.scale(4, 5, 0)
    pairs = [(n, cd) for n in (1, 2, 3) for cd in (1, 2, 3)]
    for (n, cd) in pairs:
        for seq in seqs(EVENTS, 1, max_len):
            if len(seq) > rec_len and (seq[0] == "tick" or seq[-1] == "tick" or "err" not in seq):
                continue        # observationally a shorter sequence (shifted start / unobserved last tick / nothing can open)
            rec = len(seq) <= rec_len or r.chance(1, o.scale(60, 150, 1))
            nt = do_event_case(o, direct(n, cd), T0, to_events(seq), record=rec)
            o.count("failsafe/events len=%d" % len(seq))
            if nt:
                o.count("failsafe/events with a bypassed admissible call")
    # (2) the environment path, both variables set / one / none / unparsable / zero,
    #     with enough failures to reach the documented defaults (5 attempts, 10 s)
    long_runs = [
        ["err"] * 4 + ["ok"] + ["err"] * 5 + ["ok", "tick", "ok"],
        ["err"] * 5 + ["ok"] + [["tick", 9999]] + ["ok"] + [["tick", 1]] + ["ok", "err", "ok"],
        ["err"] * 10 + ["ok"] + [["tick", 4999], "ok", ["tick", 1], "ok", ["tick", 5000], "ok"],
        ["err", "err", "ok", ["tick", 1999], "ok", ["tick", 1], "ok", "err", "ok", ["tick", 2000], "err", "err", "ok"],
        ["err", "filtered", "err", "filtered", "err", "ok", ["tick", 3000], "ok"],
    ]
    envs = [env(a, s) for a in (None, "2", "3", "0", "x") for s in (None, "1", "3", "0", "1.5")]
    envs += [direct(n, cd) for n in (None, 0, 2, 7, -1) for cd in (None, 0, 3, 12, -2)]
    for ct in envs:
        for lr in long_runs:
            evs = [e if isinstance(e, list) else ([e] if e != "tick" else ["tick", TICK_MS]) for e in lr]
            do_event_case(o, ct, T0, evs)
            o.count("failsafe/configuration paths")
        for seq in seqs(EVENTS, 3, 3):
            do_event_case(o, ct, T0, to_events(seq), record=r.chance(1, 4))
            o.count("failsafe/configuration paths")
    # (3) raw operations in any order (not only the hooks' pattern)
    raw = ["none", "handled", "other", "vok", "verr", "read", "adv"]
    for (n, cd) in [(1, 1), (2, 1), (1, 2), (2, 3)]:
        for seq in seqs(raw, 1, o.scale(3, 4, 0)):
            if o.search():
                break
            ops = [[s, TICK_MS if s == "adv" else 0] for s in seq] + [["read", 0]]
            do_ops_case(o, {"ctor": direct(n, cd), "t0": T0, "ops": ops})
            o.count("failsafe/raw len=%d" % len(seq))
    # (4) random longer histories with sub-second instants around the cool-down edge
    for i in range(o.scale(1500, 20000, 12000)):
        n, cd = r.range(1, 4), r.range(1, 3)
        ct = direct(n, cd) if r.chance(2, 3) else env(str(n), str(cd))
        evs = []
        for _ in range(r.range(4, 24)):
            x = r.intn(10)
            if x < 4:
                evs.append(["err"])
            elif x < 6:
                evs.append(["tick", r.pick([1, 499, 999, 1000, 1001, cd * 1000 - 1, cd * 1000, cd * 1000 + 1])])
            elif x < 7:
                evs.append(["ok"])
            elif x < 8:
                evs.append(["filtered"])
            elif x < 9:
                evs.append(["other"])
            else:
                evs.append(["tick", 1000])
        do_event_case(o, ct, T0 + r.intn(1000), evs)
        o.count("failsafe/random")


def gen_filter(o):
    r = o.rng.fork(2)
    salt = 0
    # (1) every first octet x boundary second octets (full sweep of the second octet: thorough)
    b_quick = [0, 1, 15, 16, 17, 31, 32, 100, 127, 167, 168, 169, 255]
    bs = list(range(256)) if o.thorough() else b_quick
    tails = [(0, 0), (255, 255)] if not o.thorough() else [(0, 0), (7, 9)]
    for a in range(256):
        qs = [{"host": ["v4", a, b, cc, d], "hdr": None, "res": ["fail"]} for b in bs for (cc, d) in tails]
        for i in range(0, len(qs), 64):
            do_filter_case(o, {"block": None, "allow": None, "queries": qs[i:i + 64], "salt": a})
        o.count("filter/ipv4 literals", len(qs))
    # (2) names resolving to each of those addresses (first octet sample x boundaries), IPv6, junk, unresolvable
    for a in [0, 1, 9, 10, 11, 12, 17, 19, 99, 100, 109, 126, 127, 128, 169, 171, 172, 173, 191, 192, 193, 255]:
        qs = []
        for j, b in enumerate(b_quick):
            qs.append({"host": ["name", j % len(NAMES)] if j < len(NAMES) else ["junk", j % len(JUNK)], "hdr": None,
                       "res": ["quad", "%d.%d.%d.%d" % (a, b, 0, 1)]})
        do_filter_case(o, {"block": None, "allow": None, "queries": qs, "salt": a})
        o.count("filter/names by resolution", len(qs))
    specials = [["v4", 0, 0, 0, 0], ["v4", 0, 0, 0, 1], ["v4", 256, 1, 1, 1], ["v4", 1, 2, 3, 999]]
    specials += [["v6", k] for k in range(len(IPV6))] + [["junk", k] for k in range(len(JUNK))] + [["name", k] for k in range(len(NAMES))]
    answers = [["fail"], ["invalid"], ["quad", "10.9.8.7"], ["quad", "8.8.8.8"], ["quad", "0.0.0.0"], ["quad", "127.0.0.1"]]
    for ans in answers:
        qs = [{"host": h, "hdr": None, "res": ans} for h in specials]
        do_filter_case(o, {"block": None, "allow": None, "queries": qs})
        o.count("filter/specials", len(qs))
    # (3) the cache: the same destination asked repeatedly while the resolver changes its answer
    for combo in itertools.product(answers, repeat=3):
        for h in (["name", 0], ["junk", 4], ["v6", 0], ["v4", 10, 0, 0, 1]):
            qs = [{"host": h, "hdr": None, "res": a} for a in combo] + [{"host": ["name", 1], "hdr": None, "res": combo[0]}]
            do_filter_case(o, {"block": None, "allow": None, "queries": qs})
            o.count("filter/cache sequences")
    # (4) allow / block list combinations x header flavours x a fixed set of destinations
    dests = [["name", 0], ["name", 1], ["name", 2], ["v4", 93, 184, 216, 34], ["v4", 192, 168, 1, 1], ["v4", 10, 0, 0, 5],
             ["v6", 0], ["v6", 2], ["junk", 0], ["junk", 2], ["v4", 256, 1, 1, 1]]
    lists = [None,
             [["name", 0]], [["name", 1], ["v4", 192, 168, 1, 1]], [["junk", 0]], [["junk", 1], ["junk", 3]],
             [["name", 0], ["junk", 2], ["v6", 0]], [["v4", 93, 184, 216, 34], ["v4", 256, 1, 1, 1]],
             [["name", 2], ["name", 2]], [["junk", 5], ["name", 1], ["junk", 5]]]
    resol = {0: ["quad", "93.184.216.34"], 1: ["quad", "93.184.216.35"], 2: ["quad", "172.20.1.1"]}
    for block in lists:
        for allow in lists:
            qs = []
            for hdr in (None, "true", "false", "TRUE", ""):
                for h in dests:
                    if hdr in ("TRUE", "") and h[0] != "name":
                        continue
                    res = resol.get(h[1], ["fail"]) if h[0] == "name" else ["fail"]
                    qs.append({"host": h, "hdr": hdr, "res": res})
            salt += 1
            do_filter_case(o, {"block": block, "allow": allow, "queries": qs, "salt": salt})
            o.count("filter/list combinations", len(qs))
    # (5) random mixes
    pool = dests + [["v4", 172, 16, 0, 1], ["v4", 172, 32, 0, 1], ["v4", 127, 9, 9, 9], ["name", 3], ["junk", 6], ["junk", 7], ["v6", 3]]
    for i in range(o.scale(300, 6000, 4000)):
        block = r.pick(lists) if r.chance(1, 2) else ([r.pick(pool) for _ in range(r.range(1, 3))] if r.chance(1, 2) else None)
        allow = r.pick(lists) if r.chance(1, 3) else ([r.pick(pool) for _ in range(r.range(1, 3))] if r.chance(1, 4) else None)
        qs = []
        for _ in range(r.range(3, 14)):
            h = r.pick(pool) if r.chance(3, 4) else ["v4", r.pick([10, 127, 172, 192, 8, 100, 0]), r.pick([0, 16, 31, 32, 168]), r.intn(256), r.intn(256)]
            qs.append({"host": h, "hdr": r.pick([None, None, None, "true", "false"]), "res": r.pick(answers)})
        if block is not None and [x for x in block if host_str(x) == ""] and len(block) == 1:
            continue
        if allow is not None and [x for x in allow if host_str(x) == ""] and len(allow) == 1:
            continue
        do_filter_case(o, {"block": block, "allow": allow, "queries": qs, "salt": i}, record=not o.search())
        o.count("filter/random")


def gen_hook(o):
    r = o.rng.fork(3)
    # every sequence over {ok, conn/hdr error, other exception, blocked destination, tick}
    alphabet = ["ok", "err", "other", "blocked", "tick"]
    max_len = o.scale(5, 6, 4)
    rec_len = o.scale(4, 4, 0)
    for (n, cd) in [(1, 2), (2, 1), (2, 3), (3, 1), (1, 3), (3, 2)]:
        for seq in seqs(alphabet, 1, max_len):
            if seq[0] == "tick" and len(seq) > 2:
                continue
            evs = []
            for i, s in enumerate(seq):
                if s == "tick":
                    evs.append(["tick", TICK_MS])
                elif s == "blocked":
                    evs.append(["call", ["blocked", "private", "privname"][i % 3], None, "ok"])
                else:
                    evs.append(["call", ["pub", "pubname"][i % 2], None, {"err": ["conn", "hdr"][i % 2]}.get(s, s)])
            rec = len(seq) <= rec_len or r.chance(1, o.scale(40, 60, 1))
            ct = direct(n, cd) if (n + cd) % 2 else env(str(n), str(cd))
            do_hook_case(o, {"ctor": ct, "block": HOOK_BLOCK, "allow": None, "t0": T0, "events": evs}, record=rec)
            o.count("hook/events len=%d" % len(seq))
    # one name, two resolver answers, first asked about while the circuit is open (filter not consulted:
    # nothing may be remembered) or closed (the first answer is remembered for ever)
    for (n, cd) in [(1, 1), (2, 1), (2, 2)]:
        for first, second in (("flip_pub", "flip_priv"), ("flip_priv", "flip_pub")):
            for while_open in (True, False):
                for hdr in (None, "true"):
                    evs = [["call", first, hdr, "ok"]] if not while_open else []
                    evs += [["call", "pub", None, "conn"] for _ in range(n)]
                    if while_open:
                        evs.append(["call", first, hdr, "ok"])
                    evs += [["tick", cd * 1000], ["call", second, None, "ok"], ["call", first, None, "ok"],
                            ["call", second, None, "conn"]]
                    do_hook_case(o, {"ctor": direct(n, cd), "block": HOOK_BLOCK, "allow": None, "t0": T0, "events": evs})
                    o.count("hook/changing resolver around an open circuit")
    # destinations of every class (IPv6 literal, bad label, allow list in force, header overrides)
    hcs = list(HOOK_HOSTS)
    for i in range(o.scale(1200, 15000, 8000)):
        n, cd = r.range(1, 3), r.range(1, 3)
        ct = direct(n, cd) if r.bool() else env(str(n), str(cd))
        allow = None if r.chance(3, 4) else [list(HOOK_HOSTS["pubname"][0]), list(HOOK_HOSTS["private"][0])]
        evs = []
        for _ in range(r.range(3, 16)):
            if r.chance(1, 5):
                evs.append(["tick", r.pick([1, 999, 1000, 1001, cd * 1000 - 1, cd * 1000])])
            else:
                evs.append(["call", r.pick(hcs) if r.chance(1, 2) else "pub", r.pick([None, None, None, "true", "false"]),
                            r.pick(["ok", "conn", "hdr", "conn", "other"])])
        do_hook_case(o, {"ctor": ct, "block": HOOK_BLOCK, "allow": allow, "t0": T0, "events": evs})
        o.count("hook/random")


def main():
    o = c.Out("C19")
    req = "From Verif Require Import C19.Model."
    sfx = ""
    if os.environ.get("C19_MODEL") == "legacy":
        # manual cross-check only: compare the UNREPAIRED tree with theories/C19/Legacy.v
        req += " From Verif Require Import C19.Legacy."
        sfx = "_legacy"
        o.note("C19_MODEL=legacy: cases are compared with the model of the code as found (Legacy.v)")
    o.declare_suite("failsafe", req, "case_failsafe", "run_failsafe" + sfx)
    o.declare_suite("filter", req, "case_filter", "run_filter" + sfx)
    o.declare_suite("hook", req, "case_hook", "run_hook_case" + sfx)
    osfx = ""
    if os.environ.get("C19_MODEL") == "flag":
        # manual cross-check only: the per-instance-flag variant of Overlap.v (seeded regression C19-5)
        osfx = "_flag"
        o.note("C19_MODEL=flag: suite overlap is compared with the per-instance-flag variant (Overlap.vstep)")
    o.declare_suite("overlap", "From Verif Require Import C19.Model C19.Overlap.", "case_overlap", "run_overlap" + osfx)
    o.rule("failsafe: every sequence of the 5 call events (gateway ok / gateway error / other exception / "
           "filtered destination / 1 s tick) up to a length bound x (n, c) in {1..3}^2 driven through the hooks' "
           "`with fail_safe` pattern (all monitored, the shorter ones also compared with the model), the "
           "environment/default configuration paths, every raw operation order up to a bound, random histories "
           "with sub-second instants; filter: 256 first octets x boundary second octets x 3 tails, names by "
           "resolution, IPv6 / malformed / unresolvable hosts, resolver answers changing under the cache, "
           "9 x 9 allow/block lists x header flavours; hook: the same event sequences through "
           "RequestsHook with a scripted transport, plus one name whose resolver answer changes around an open "
           "circuit; overlap: ALL interleavings of the method calls of two guarded "
           "calls on one FailSafe x 21 unordered pairs of {clean, x-lunar-error, ConnectionError, other exception, "
           "filtered, clean-then-failing-retry} x starting count {0, 1, max-1, max (cool-down 1 ms before its end / "
           "just over)} x a following gateway error / probes at the cool-down edge, plus sampled interleavings of "
           "three calls with clock advances (all monitored, 1 in 4 also compared with the model), and 2/4/8 real "
           "threads of failing guarded calls on one object (monitor only). "
           "distinct = distinct (inputs, observed outputs); "
           "non-trivial = failsafe/hook: an admissible call was kept away from the gateway; "
           "filter: the case has both routed and non-routed destinations; overlap: two calls were open at once, "
           "a clean response arrived and state_ok answered False at some point")
    o.note("tree under check: " + REPO)
    try:
        import socket
        socket.gethostbyname("a..b")
        o.note("environment: real gethostbyname('a..b') returned normally")
    except UnicodeError as x:
        o.note("environment: real gethostbyname('a..b') raises %s (a ValueError, not socket.error) without any network access" % type(x).__name__)
    except Exception as x:  # noqa: BLE001
        o.note("environment: real gethostbyname('a..b') raises " + type(x).__name__)

    rp = o.replay_case()
    if rp is not None:
        suite, case = rp
        if suite == "filter":
            do_filter_case(o, case)
        elif suite == "hook":
            do_hook_case(o, case)
        elif "threads" in case:
            do_threads_probe(o, case)
        elif suite == "overlap" or "schedule" in case:
            do_overlap_case(o, case)
        elif "events" in case:
            do_event_case(o, case["ctor"], case["t0"], case["events"])
        else:
            do_ops_case(o, case)
        o.finish()
        return
    gen_failsafe(o)
    gen_overlap(o)
    gen_filter(o)
    gen_hook(o)
    o.finish()


if __name__ == "__main__":
    main()
