#!/usr/bin/env python3
"""Runs the interceptor's own unit tests that need neither a gateway nor a network
(lunar_interceptor/test/{fail_safe,traffic_filter,helpers}_test.py of $VERIF_REPO,
unedited) on a machine where pytest / pytest-asyncio / freezegun are not installed.

  VERIF_REPO=/tmp/wt-c19 python3 pyharness/run_repo_tests.py

Stand-ins (this file): `pytest` (mark.asyncio, raises), `freezegun.freeze_time`
(freezes `time` in every loaded module that imported time.time, `tick(seconds)`),
and a DNS answer for the public names the filter tests use ("www.not_working.lol"
does not resolve, every other name resolves to a public address) because there
is no network here.  interceptor_test.py needs aiohttp and httpbin.org: skipped.
"""
import asyncio
import contextlib
import importlib.util
import os
import socket
import sys
import time as _time
import types

sys.dont_write_bytecode = True
REPO = os.environ.get("VERIF_REPO", "/repo")
BASE = os.path.join(REPO, "interceptors/lunar-py-interceptor/lunar_interceptor")
PKG = os.path.join(BASE, "src", "lunar_interceptor")


def _stub_pkg(name, path):
    m = types.ModuleType(name)
    m.__path__ = [path]
    sys.modules[name] = m


_stub_pkg("lunar_interceptor", PKG)
_stub_pkg("lunar_interceptor.interceptor", os.path.join(PKG, "interceptor"))
_stub_pkg("lunar_interceptor.interceptor.hooks", os.path.join(PKG, "interceptor", "hooks"))

# ---- pytest stand-in
pt = types.ModuleType("pytest")
pt.mark = types.SimpleNamespace(asyncio=lambda x: x)


@contextlib.contextmanager
def _raises(exc):
    try:
        yield
    except exc:
        return
    raise AssertionError("DID NOT RAISE %r" % (exc,))


pt.raises = _raises
sys.modules["pytest"] = pt

# ---- freezegun stand-in
_REAL_TIME = _time.time


class _Frozen:
    def __init__(self, at):
        self.now = at.timestamp()
        self.patched = []

    def __enter__(self):
        fake = lambda: self.now  # noqa: E731
        for m in list(sys.modules.values()):
            if getattr(m, "time", None) is _REAL_TIME:
                m.time = fake
                self.patched.append(m)
        return self

    def tick(self, delta=1):
        self.now += float(delta)

    def __exit__(self, *a):
        for m in self.patched:
            m.time = _REAL_TIME
        return False


fg = types.ModuleType("freezegun")
fg.freeze_time = _Frozen
sys.modules["freezegun"] = fg


def _resolver(h):
    if h == "www.not_working.lol":
        raise socket.gaierror(-2, "Name or service not known")
    return "142.250.0.1"


def main():
    failed = ran = 0
    for fn in ("fail_safe_test.py", "traffic_filter_test.py", "helpers_test.py"):
        spec = importlib.util.spec_from_file_location("repo_" + fn[:-3], os.path.join(BASE, "test", fn))
        mod = importlib.util.module_from_spec(spec)
        spec.loader.exec_module(mod)
        tf = sys.modules.get("lunar_interceptor.interceptor.traffic_filter")
        if tf is not None:
            tf.gethostbyname = _resolver
        for cname in dir(mod):
            cls = getattr(mod, cname)
            if not (isinstance(cls, type) and cname.startswith("Test")):
                continue
            for tname in sorted(dir(cls)):
                if not tname.startswith("test"):
                    continue
                ran += 1
                try:
                    r = getattr(cls(), tname)()
                    if asyncio.iscoroutine(r):
                        asyncio.run(r)
                    print("PASS %s::%s::%s" % (fn, cname, tname))
                except BaseException as x:  # noqa: B902
                    failed += 1
                    print("FAIL %s::%s::%s: %s: %s" % (fn, cname, tname, type(x).__name__, x))
    print("%d tests, %d failed (tree: %s)" % (ran, failed, REPO))
    sys.exit(1 if failed else 0)


if __name__ == "__main__":
    main()
